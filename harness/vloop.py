"""Virtual-time asyncio loop. A run is a pure function of (code, program): no wall clock, no real I/O."""
import asyncio
import datetime as _dt
import heapq

from harness.common import HarnessError

EPOCH = _dt.datetime(2030, 1, 1, 0, 0, 0)


class Deadlock(Exception):
    pass


class _VSelector:
    def __init__(self, inner, loop):
        self._inner = inner
        self._loop = loop

    def select(self, timeout=None):
        if timeout is None:
            raise Deadlock('nothing scheduled: the driver is waiting for something that cannot happen')
        if timeout > 0:
            self._loop._vtime += timeout
        return []

    def __getattr__(self, name):
        return getattr(self._inner, name)


class VLoop(asyncio.SelectorEventLoop):
    def __init__(self):
        super().__init__()
        self._vtime = 1000.0
        self._selector = _VSelector(self._selector, self)
        self.errors = []  # unhandled exceptions reported to the loop
        self.set_exception_handler(self._on_error)
        self._clock_resolution = 1e-9

    def time(self):
        return self._vtime

    def _on_error(self, loop, context):
        exc = context.get('exception')
        self.errors.append({'message': context.get('message'), 'exception': repr(exc),
                            'type': type(exc).__name__ if exc is not None else None, 'vtime': self._vtime})

    def idle(self):
        """Nothing is runnable right now (apart from the caller) and no timer is due."""
        if self._ready:
            return False
        now = self._vtime
        for h in self._scheduled:
            if not h._cancelled and h._when <= now:
                return False
        return True

    def next_timer(self):
        pending = [h._when for h in self._scheduled if not h._cancelled]
        return min(pending) if pending else None


class VDateTime(_dt.datetime):
    """datetime whose now() follows the running virtual loop."""

    @classmethod
    def now(cls, tz=None):
        try:
            loop = asyncio.get_running_loop()
        except RuntimeError:
            loop = None
        if isinstance(loop, VLoop):
            return EPOCH + _dt.timedelta(seconds=loop.time())
        return EPOCH


def patch_datetime():
    """Rebind the module-level name `datetime` where the library reads the clock."""
    import rsocket.lease
    import rsocket.rsocket_client
    for mod in (rsocket.lease, rsocket.rsocket_client):
        if not hasattr(mod, 'datetime'):
            raise HarnessError('%s no longer has a module-level datetime to virtualise' % mod.__name__)
        mod.datetime = VDateTime


async def settle(loop, max_iters=20000, extra=None):
    """Yield until nothing is runnable (two consecutive idle observations). `extra()` may move bytes; returns True
    if it did something. Returns number of iterations; raises HarnessError on the cap (livelock)."""
    idle_count = 0
    for i in range(max_iters):
        await asyncio.sleep(0)
        progressed = extra() if extra is not None else False
        if loop.idle() and not progressed:
            idle_count += 1
            if idle_count >= 2:
                return i
        else:
            idle_count = 0
    return -1


def run_case(coro_fn, *args, **kwargs):
    """Run an async scenario on a fresh virtual loop; cancel and await everything left before closing."""
    loop = VLoop()
    asyncio.set_event_loop(loop)
    stuck = False
    try:
        result = loop.run_until_complete(coro_fn(loop, *args, **kwargs))
        return result
    except KeyboardInterrupt:
        stuck = True  # the per-case guard fired: do not run the stuck code again for cleanup
        raise
    finally:
        try:
            for _ in range(0 if stuck else 3):
                pending = [t for t in asyncio.all_tasks(loop) if not t.done()]
                if not pending:
                    break
                cyclic = False
                for t in pending:
                    try:
                        t.cancel()
                    except RecursionError:
                        # tasks of the code under test that await each other in a cycle: Task.cancel() follows the chain of
                        # awaited futures for ever. Nothing can be cleaned up; the trace (taken before this) is the evidence.
                        cyclic = True
                if cyclic:
                    break
                try:
                    loop.run_until_complete(asyncio.gather(*pending, return_exceptions=True))
                except (Deadlock, RecursionError):
                    break
        finally:
            asyncio.set_event_loop(None)
            loop.close()
