"""Both codec backends in one process: the normal import (cbitstruct present) and a second copy of the rsocket
module tree imported while `cbitstruct` is masked, so that the `except ImportError` branches of frame.py and
frame_helpers.py are taken."""
import importlib
import sys
import types

from harness.common import use_repo, HarnessError

_cache = {}


class Variant:
    def __init__(self, name, modules):
        self.name = name
        self.modules = modules

    def mod(self, dotted):
        return self.modules[dotted]


_NEEDED = [
    'rsocket.frame', 'rsocket.frame_helpers', 'rsocket.frame_parser', 'rsocket.frame_fragment_cache',
    'rsocket.frame_fragmenter', 'rsocket.helpers', 'rsocket.payload', 'rsocket.transports.tcp',
    'rsocket.transports.abstract_messaging',
    'rsocket.extensions.composite_metadata', 'rsocket.extensions.helpers', 'rsocket.extensions.mimetypes',
    'rsocket.extensions.authentication', 'rsocket.extensions.authentication_types', 'rsocket.extensions.routing',
    'rsocket.extensions.tagging', 'rsocket.extensions.stream_data_mimetype', 'rsocket.extensions.authentication_content',
    'rsocket.extensions.composite_metadata_item', 'rsocket.stream_control', 'rsocket.exceptions', 'rsocket.error_codes',
    'rsocket.frame_builders',
]


def _snapshot():
    return {k: v for k, v in sys.modules.items() if k == 'rsocket' or k.startswith('rsocket.') or k == 'reactivestreams'
            or k.startswith('reactivestreams.')}


def _import_all():
    mods = {}
    for name in _NEEDED:
        mods[name] = importlib.import_module(name)
    return mods


def load():
    """Returns {'cbitstruct': Variant or None, 'native': Variant}."""
    if _cache:
        return _cache
    use_repo()
    have_cbit = True
    try:
        import cbitstruct  # noqa
    except ImportError:
        have_cbit = False
    normal = _import_all()
    normal_snapshot = _snapshot()
    if have_cbit:
        if normal['rsocket.frame'].ParseHelper.parse_header.__name__ != 'parse_header_cbitstruct':
            raise HarnessError('cbitstruct importable but the cbitstruct header parser was not selected')
        # second import with cbitstruct masked
        saved_cbit = sys.modules.get('cbitstruct')
        for k in list(normal_snapshot):
            del sys.modules[k]
        sys.modules['cbitstruct'] = None
        try:
            native = _import_all()
            native_snapshot = _snapshot()
        finally:
            for k in list(_snapshot()):
                del sys.modules[k]
            sys.modules.update(normal_snapshot)
            if saved_cbit is not None:
                sys.modules['cbitstruct'] = saved_cbit
            else:
                del sys.modules['cbitstruct']
        if native['rsocket.frame'].ParseHelper.parse_header.__name__ != 'parse_header_native':
            raise HarnessError('masking cbitstruct did not select the native header parser')
        _cache['cbitstruct'] = Variant('cbitstruct', normal)
        _cache['native'] = Variant('native', native)
    else:
        _cache['cbitstruct'] = None
        _cache['native'] = Variant('native', normal)
    return _cache


def all_variants():
    return [v for v in load().values() if v is not None]
