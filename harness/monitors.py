"""Monitors: pure functions Trace -> [violation]. Each oracle is tied to a sentence of its property."""
from harness import app as A
from harness.common import viol

OTHER = {'c': 's', 's': 'c'}
MAXN = 0x7FFFFFFF


def events(tr, upto=None):
    return tr.world.log


def nonempty(d, m):
    return bool(d) or bool(m)


def _cmp_seq(expected, observed):
    """Classify the difference between two sequences of (data, metadata[, complete]) tuples."""
    if expected == observed:
        return None
    es, os_ = list(expected), list(observed)
    if len(os_) < len(es) and es[:len(os_)] == os_:
        return 'missing'
    if len(os_) > len(es) and os_[:len(es)] == es:
        return 'extra'
    if sorted(es) == sorted(os_):
        return 'reordered'
    # find first difference
    for i, (e, o) in enumerate(zip(es, os_)):
        if e != o:
            if o in es:
                return 'misplaced'
            tot_e = sum(len(x[0]) + len(x[1]) for x in es)
            tot_o = sum(len(x[0]) + len(x[1]) for x in os_)
            if tot_e == tot_o:
                return 'merged_or_split'
            return 'corrupted'
    return 'corrupted'


def _brief(seq, limit=6):
    return [[len(x[0]), len(x[1])] + list(x[2:]) for x in list(seq)[:limit]]


# ------------------------------------------------------------------------------------------------ C01

def mon_delivery(tr, pid='C01', require_complete=True, skip_uids=()):
    """Every non-empty payload handed to the library is observed at the peer's matching callback exactly once,
    intact, in order, on the right interaction. Judged at quiescence of a healed, fault-free run (then equality);
    otherwise only 'nothing foreign, nothing duplicated, order kept' (observed is a prefix of handed)."""
    out = []
    scn = tr.scn
    complete = require_complete and tr.quiet and not tr.faulted
    log = tr.world.log
    by_uid = {}
    mp_handled = {'c': [], 's': []}
    for e in log:
        if e['ev'] == 'handler' and e.get('k') == 'mp':
            mp_handled[e['side']].append((e['data'], e['metadata']))
        u = e.get('uid')
        if u is not None:
            by_uid.setdefault(u, []).append(e)
    mp_issued = {'c': [], 's': []}
    for uid in scn.started:
        if uid in skip_uids:
            continue
        st = scn.st[uid]
        spec = st['spec']
        k = spec['k']
        side = spec['side']
        peer = OTHER[side]
        evs = by_uid.get(uid, [])
        if st.get('issue_raised'):
            continue
        d, m = A.payload_bytes(uid, A.TAG_REQ, 0, spec.get('req', [1, 0]))
        if k == 'mp':
            if m:
                mp_issued[peer].append((b'', m))
            continue
        handled = [e for e in evs if e['ev'] == 'handler' and e['side'] == peer]
        if len(handled) > 1:
            out.append(viol('request_duplicated', pid + ':request_duplicated:' + k, uid=uid, k=k, n=len(handled)))
        elif len(handled) == 0:
            if complete and nonempty(d, m):
                out.append(viol('request_lost', pid + ':request_lost:' + k, uid=uid, k=k))
        else:
            h = handled[0]
            if (h['data'], h['metadata']) != (d, m) or h.get('k') != k:
                out.append(viol('request_corrupted', pid + ':request_corrupted:' + k, uid=uid, k=k,
                                sent=[len(d), len(m)], got=[len(h['data']), len(h['metadata'])], got_kind=h.get('k')))
        if k == 'rr':
            hands = [e for e in evs if e['ev'] == 'hand' and e['dir'] == 'resp']
            results = [e for e in evs if e['ev'] == 'rr_result']
            errors = [e for e in evs if e['ev'] in ('rr_error', 'rr_cancelled')]
            cancelled = any(e['ev'] == 'rr_cancel_call' for e in evs)
            if len(results) > 1:
                out.append(viol('response_duplicated', pid + ':response_duplicated', uid=uid))
            if results:
                r = results[0]
                if not hands or (hands[0]['data'], hands[0]['metadata']) != (r['data'], r['metadata']):
                    out.append(viol('response_corrupted', pid + ':response_corrupted', uid=uid,
                                    sent=_brief([(h['data'], h['metadata']) for h in hands]),
                                    got=[len(r['data']), len(r['metadata'])]))
            elif hands and complete and not cancelled and not errors:
                out.append(viol('response_lost', pid + ':response_lost', uid=uid))
            elif hands and errors and not cancelled and complete:
                out.append(viol('response_replaced_by_error', pid + ':response_replaced_by_error', uid=uid,
                                err=errors[0].get('exc')))
        if k in ('st', 'ch'):
            for dirn in ('resp', 'req'):
                hs = [(e['data'], e['metadata']) for e in evs if e['ev'] == 'hand' and e['dir'] == dirn
                      and nonempty(e['data'], e['metadata']) and e.get('run', 1) == 1]
                os_ = [(e['data'], e['metadata']) for e in evs if e['ev'] == 'on_next' and e['dir'] == dirn
                       and nonempty(e['data'], e['metadata'])]
                sub = st['sub'].get(dirn)
                has_sub = sub is not None
                if not has_sub and not os_:
                    continue
                interrupted = any(e['ev'] in ('sub_cancel', 'on_error') and e['dir'] == dirn for e in evs) or \
                    any(e['ev'] == 'hand_end' and e.get('how') == 'error' for e in evs) or \
                    any(e['ev'] in ('pub_cancel', 'src_on_cancel') and e['dir'] == dirn for e in evs)
                if complete and not interrupted:
                    diff = _cmp_seq(hs, os_)
                else:
                    diff = None if hs[:len(os_)] == os_ else (_cmp_seq(hs[:len(os_)], os_) or 'corrupted')
                if diff:
                    out.append(viol('elements_' + diff, '%s:elements_%s:%s:%s' % (pid, diff, k, dirn), uid=uid,
                                    dir=dirn, handed=_brief(hs), observed=_brief(os_), n_handed=len(hs),
                                    n_observed=len(os_)))
    for side in ('c', 's'):
        exp, got = mp_issued[side], mp_handled[side]
        if complete:
            diff = _cmp_seq(exp, got)
        else:
            diff = None if exp[:len(got)] == got else 'corrupted'
        if diff:
            out.append(viol('metadata_push_' + diff, '%s:metadata_push_%s' % (pid, diff), side=side,
                            sent=_brief(exp), got=_brief(got)))
    return out


# ------------------------------------------------------------------------------------------------ C05

def reassemble(sends):
    """Independent reassembler over one endpoint's send log. Returns (per-sid logical frame lists, violations)."""
    per = {}
    open_train = {}
    out = []
    for e in sends:
        f = e['f']
        sid = f['sid']
        t = f['type']
        if sid in open_train:
            cur = open_train[sid]
            if t != 'PAYLOAD':
                out.append(viol('frame_inside_train', 'C05:frame_inside_train:' + t, sid=sid, seq=e['seq'],
                                train_type=cur['type'], intruder=t))
                # the train is broken; close it as is
                per.setdefault(sid, []).append(cur)
                del open_train[sid]
            else:
                cur['metadata'] += f['metadata']
                cur['data'] += f['data']
                cur['fragments'] += 1
                cur['md_after_data'] = cur.get('md_after_data') or (bool(f['metadata']) and cur['_seen_data'])
                cur['_seen_data'] = cur['_seen_data'] or bool(f['data'])
                if not f['follows']:
                    cur['complete'] = f['complete']
                    cur['next'] = cur['next'] or f['next']
                    cur['last_seq'] = e['seq']
                    per.setdefault(sid, []).append(cur)
                    del open_train[sid]
                continue
        if t in ('PAYLOAD', 'REQUEST_RESPONSE', 'REQUEST_FNF', 'REQUEST_STREAM', 'REQUEST_CHANNEL') and f['follows']:
            open_train[sid] = {'type': t, 'sid': sid, 'data': f['data'], 'metadata': f['metadata'], 'n': f.get('n'),
                               'complete': f['complete'], 'next': f['next'], 'fragments': 1, 'seq': e['seq'],
                               '_seen_data': bool(f['data'])}
            continue
        g = dict(f)
        g['fragments'] = 1
        g['seq'] = e['seq']
        g['last_seq'] = e['seq']
        per.setdefault(sid, []).append(g)
    return per, open_train, out


def expected_wire(tr, side):
    """Per stream id, the logical frames this endpoint's application caused, in hand-over order:
    returns sid -> {'pub': [...], 'ctl': [...], 'all': [...] or None} (all = total order, only when every source on
    this side of the stream is a manual publisher or a future)."""
    scn = tr.scn
    exp = {}
    for uid in scn.started:
        st = scn.st[uid]
        spec = st['spec']
        sid = st['sid']
        if sid in (None, 0) or st.get('issue_raised'):
            continue
        k = spec['k']
        req_side = spec['side']
        rec = {'pub': [], 'ctl': [], 'all': [], 'uid': uid, 'k': k, 'role': 'requester' if side == req_side else 'responder'}
        total_ok = True
        for e in tr.world.log:
            if e.get('uid') != uid or e['side'] != side or e.get('run', 1) != 1:
                continue
            ev = e['ev']
            item = None
            cls = None
            if ev == 'issue':
                t = {'rr': 'REQUEST_RESPONSE', 'fnf': 'REQUEST_FNF', 'st': 'REQUEST_STREAM', 'ch': 'REQUEST_CHANNEL'}[k]
                item = {'type': t, 'data': e['data'], 'metadata': e['metadata']}
                cls = 'pub'
            elif ev == 'initial_n':
                # initial_n is logged after issue and before subscribe; attach to the request frame
                for it in rec['pub']:
                    if it['type'] in ('REQUEST_STREAM', 'REQUEST_CHANNEL'):
                        it['n'] = e['n']
                continue
            elif ev == 'hand':
                item = {'type': 'PAYLOAD', 'data': e['data'], 'metadata': e['metadata'], 'complete': e['complete'],
                        'next': True}
                cls = 'pub'
            elif ev == 'hand_end':
                if e['how'] == 'complete':
                    item = {'type': 'PAYLOAD', 'data': b'', 'metadata': b'', 'complete': True}
                else:
                    item = {'type': 'ERROR'}
                cls = 'pub'
            elif ev == 'gen_exhausted':
                src = spec.get('src') if e['dir'] == 'resp' else spec.get('rsrc')
                if src and src.get('end') != 'flag':
                    item = {'type': 'PAYLOAD', 'data': b'', 'metadata': b'', 'complete': True}
                    cls = 'pub'
            elif ev == 'sub_request':
                item = {'type': 'REQUEST_N', 'n': e['n']}
                cls = 'ctl'
            elif ev in ('sub_cancel', 'rr_cancel_call'):
                item = {'type': 'CANCEL'}
                cls = 'ctl'
            if item is None:
                continue
            item['app_seq'] = e['seq']
            rec[cls].append(item)
            rec['all'].append(item)
        for dirn, p in st['libpub'].items():
            if side_hosts_pub(st, dirn) == side:
                total_ok = False
        if not total_ok:
            rec['all'] = None
        exp[sid] = rec
    return exp


def side_hosts_pub(st, dirn):
    req_side = st['spec']['side']
    return OTHER[req_side] if dirn == 'resp' else req_side


def _frame_matches(item, fr):
    if item['type'] != fr['type']:
        return False
    t = item['type']
    if t == 'ERROR':
        return True
    if t == 'CANCEL':
        return True
    if t == 'REQUEST_N':
        return item['n'] == fr.get('n')
    if (item['data'], item['metadata']) != (fr['data'], fr['metadata']):
        return False
    if t == 'PAYLOAD':
        if bool(item.get('complete')) != bool(fr.get('complete')):
            return False
        if nonempty(item['data'], item['metadata']) and not fr.get('next'):
            return False
    if t in ('REQUEST_STREAM', 'REQUEST_CHANNEL') and 'n' in item and item['n'] != fr.get('n'):
        return False
    return True


def _brief_frames(frs, limit=8):
    out = []
    for f in list(frs)[:limit]:
        out.append({k: (len(v) if isinstance(v, (bytes, bytearray)) else v) for k, v in f.items()
                    if k in ('type', 'data', 'metadata', 'complete', 'n', 'next', 'fragments')})
    return out


def mon_wire_order(tr, pid='C05', sides=('c', 's')):
    """Per stream: fragment trains are contiguous, and the reassembled logical frames are exactly what the
    application handed over, in hand-over order (completion/error/cancel never overtake or split a payload)."""
    out = []
    complete = tr.quiet and not tr.faulted
    for side in sides:
        sends = tr.world.wire.get(side, [])
        per, open_train, vs = reassemble(sends)
        for v in vs:
            v['facts']['side'] = side
        out.extend(vs)
        if complete and open_train:
            for sid, cur in open_train.items():
                out.append(viol('train_never_finished', pid + ':train_never_finished', side=side, sid=sid,
                                fragments=cur['fragments']))
        exp = expected_wire(tr, side)
        for sid, rec in exp.items():
            frames = per.get(sid, [])
            # stop judging at the first terminal event of the stream caused by the peer (frames in flight after a
            # peer CANCEL/ERROR are not this endpoint's responsibility) -> handled by callers choosing programs
            pub_w = [f for f in frames if f['type'] in ('PAYLOAD', 'ERROR', 'REQUEST_RESPONSE', 'REQUEST_FNF',
                                                        'REQUEST_STREAM', 'REQUEST_CHANNEL')]
            ctl_w = [f for f in frames if f['type'] in ('REQUEST_N', 'CANCEL')]
            for name, want, got in (('pub', rec['pub'], pub_w), ('ctl', rec['ctl'], ctl_w)):
                n = min(len(want), len(got))
                bad = None
                for i in range(n):
                    if not _frame_matches(want[i], got[i]):
                        bad = i
                        break
                if bad is not None:
                    out.append(viol('wire_sequence_mismatch', '%s:wire_sequence_mismatch:%s' % (pid, name), side=side,
                                    sid=sid, uid=rec['uid'], role=rec['role'], k=rec['k'], index=bad,
                                    want=_brief_frames(want[bad:bad + 3]), got=_brief_frames(got[bad:bad + 3])))
                elif len(got) > len(want):
                    out.append(viol('wire_extra_frames', '%s:wire_extra_frames:%s' % (pid, name), side=side, sid=sid,
                                    uid=rec['uid'], role=rec['role'], k=rec['k'],
                                    extra=_brief_frames(got[len(want):])))
                elif complete and len(got) < len(want) and not tr_stream_interrupted(tr, rec['uid']):
                    out.append(viol('wire_missing_frames', '%s:wire_missing_frames:%s' % (pid, name), side=side,
                                    sid=sid, uid=rec['uid'], role=rec['role'], k=rec['k'],
                                    missing=_brief_frames(want[len(got):])))
            if rec['all'] is not None and not out:
                want = rec['all']
                got = frames
                n = min(len(want), len(got))
                for i in range(n):
                    if not _frame_matches(want[i], got[i]):
                        out.append(viol('wire_total_order_mismatch', pid + ':wire_total_order_mismatch', side=side,
                                        sid=sid, uid=rec['uid'], role=rec['role'], k=rec['k'], index=i,
                                        want=_brief_frames(want[i:i + 3]), got=_brief_frames(got[i:i + 3])))
                        break
    return out


def tr_stream_interrupted(tr, uid):
    """The stream was cut short by a cancel or an error from either side (frames queued after it may be dropped)."""
    for e in tr.world.log:
        if e.get('uid') == uid and e['ev'] in ('sub_cancel', 'rr_cancel_call', 'on_error', 'rr_error', 'pub_cancel',
                                               'src_on_cancel'):
            return True
        if e.get('uid') == uid and e['ev'] == 'hand_end' and e.get('how') == 'error':
            return True
    return False


# ------------------------------------------------------------------------------------------------ generic

def mon_no_loop_errors(tr, pid):
    out = []
    for err in tr.loop_errors:
        out.append(viol('unhandled_exception', '%s:unhandled_exception:%s' % (pid, err.get('type')), **err))
    return out


# ------------------------------------------------------------------------------------------------ C08

REQ_TYPES = {'REQUEST_RESPONSE': 'rr', 'REQUEST_FNF': 'fnf', 'REQUEST_STREAM': 'st', 'REQUEST_CHANNEL': 'ch'}
CONN_TYPES = ('SETUP', 'KEEPALIVE', 'LEASE', 'METADATA_PUSH', 'RESUME', 'RESUME_OK')
ALLOWED = {
    ('rr', 'requester'): {'CANCEL'},
    ('rr', 'responder'): {'PAYLOAD', 'ERROR'},
    ('fnf', 'requester'): set(),
    ('fnf', 'responder'): set(),
    ('st', 'requester'): {'REQUEST_N', 'CANCEL'},
    ('st', 'responder'): {'PAYLOAD', 'ERROR'},
    ('ch', 'requester'): {'PAYLOAD', 'REQUEST_N', 'CANCEL', 'ERROR'},
    ('ch', 'responder'): {'PAYLOAD', 'REQUEST_N', 'CANCEL', 'ERROR'},
}


class _S:
    """Per (endpoint, stream id) state as the endpoint itself has seen it."""
    __slots__ = ('kind', 'role', 'train', 'own_complete', 'own_error', 'own_cancel', 'peer_complete', 'peer_error',
                 'peer_cancel', 'payload_trains', 'req_done', 'peer_train', 'peer_req_done', 'cancels')

    def __init__(self, kind, role):
        self.kind, self.role = kind, role
        self.train = None  # type of the own fragment train in progress
        self.peer_train = False
        self.own_complete = self.own_error = self.own_cancel = False
        self.peer_complete = self.peer_error = self.peer_cancel = False
        self.payload_trains = 0
        self.req_done = False
        self.peer_req_done = False
        self.cancels = 0

    def own_closed(self):
        """This endpoint will not legitimately send anything more on the stream."""
        if self.own_error or (self.own_cancel and self.role == 'requester'):
            return True
        if self.kind == 'fnf':
            return self.req_done or self.role == 'responder'
        if self.kind == 'rr':
            return self.own_complete if self.role == 'responder' else False
        if self.kind == 'st':
            return self.own_complete if self.role == 'responder' else False
        return False

    def terminated(self):
        """Both directions are over from this endpoint's point of view (the id may be used again)."""
        if self.own_error or self.peer_error:
            return True
        if self.role == 'requester' and self.own_cancel:
            return True
        if self.role == 'responder' and self.peer_cancel:
            return True
        if self.kind == 'fnf':
            return self.req_done if self.role == 'requester' else self.peer_req_done
        if self.kind in ('rr', 'st'):
            return self.peer_complete if self.role == 'requester' else self.own_complete
        if self.kind == 'ch':
            return self.own_complete and self.peer_complete
        return False


def mon_protocol(tr, pid='C08', decision=None):
    """Everything an endpoint puts on the wire is legal for its role (statement of C08), judged on the endpoint's own
    interleaved send/receive log. Rules that depend on receptions use the moment the library decided to emit where
    the harness can know it (request-response CANCEL: the future's done callback), otherwise only the endpoint's own
    send order is judged, so frames already queued when a peer frame arrives are never blamed."""
    out = []
    parity = {'c': 1, 's': 0}
    setup_by_tr = {}
    first_by_tr = {}
    states = {'c': {}, 's': {}}
    last_rr_cancelled = {}
    for e in tr.world.log:
        side = e['side']
        if side not in ('c', 's'):
            continue
        if e['ev'] == 'rr_cancelled':
            last_rr_cancelled[(side, e['uid'])] = e['seq']
            continue
        if e['ev'] not in ('send', 'recv'):
            continue
        f = e['f']
        t = f['type']
        sid = f['sid']
        st = states[side]

        def bad(kind, sig=None, **kw):
            out.append(viol(kind, '%s:%s' % (pid, sig or kind), side=side, sid=sid, type=t, seq=e['seq'], **kw))

        if e['ev'] == 'recv':
            if t == 'INVALID' or sid in (None, 0):
                continue
            s = st.get(sid)
            if t in REQ_TYPES:
                if s is None or s.terminated():
                    s = st[sid] = _S(REQ_TYPES[t], 'responder')
                    s.peer_train = bool(f.get('follows'))
                    s.peer_req_done = not s.peer_train
                    if t == 'REQUEST_CHANNEL' and f.get('complete') and not f.get('follows'):
                        s.peer_complete = True
                continue
            if s is None:
                continue
            if t == 'PAYLOAD':
                if s.peer_train and not s.peer_req_done:
                    if not f.get('follows'):
                        s.peer_req_done = True
                        s.peer_train = False
                        if s.kind == 'ch' and f.get('complete'):
                            s.peer_complete = True
                    continue
                if f.get('complete') and not f.get('follows'):
                    s.peer_complete = True
            elif t == 'ERROR':
                s.peer_error = True
            elif t == 'CANCEL':
                s.peer_cancel = True
            continue

        # ---- send
        trid = e.get('tr')
        if trid not in first_by_tr:
            first_by_tr[trid] = t
            if side == 'c' and t != 'SETUP':
                bad('first_frame_not_setup', 'setup_not_first', first=t)
        if t == 'SETUP':
            if side == 's':
                bad('server_sent_setup')
            setup_by_tr[trid] = setup_by_tr.get(trid, 0) + 1
            if setup_by_tr[trid] > 1:
                bad('setup_sent_twice')
        if t in CONN_TYPES:
            if sid != 0:
                bad('connection_frame_on_stream', 'connection_frame_on_stream:' + t)
            continue
        if sid == 0:
            if t != 'ERROR':
                bad('stream_frame_on_connection_stream', 'stream_frame_on_stream_0:' + t)
            continue
        s = st.get(sid)
        if t in REQ_TYPES:
            if s is not None and not s.terminated() and not (s.role == 'responder' and s.own_closed()):
                bad('request_on_live_stream_id', 'request_on_live_id')
            if sid % 2 != parity[side]:
                bad('wrong_stream_id_parity', 'wrong_parity')
            if t in ('REQUEST_STREAM', 'REQUEST_CHANNEL') and not (f.get('n') or 0) > 0:
                bad('non_positive_initial_request_n', 'initial_request_n', n=f.get('n'))
            s = st[sid] = _S(REQ_TYPES[t], 'requester')
            if f.get('follows'):
                s.train = t
            else:
                s.req_done = True
                if t == 'REQUEST_CHANNEL' and f.get('complete'):
                    s.own_complete = True
            continue
        if s is None:
            bad('frame_on_unopened_stream', 'frame_on_unopened_stream:' + t)
            continue
        # continuation of the own request train
        if s.train is not None:
            if t != 'PAYLOAD':
                bad('frame_inside_fragment_train', 'frame_inside_train:' + t)
            else:
                if not f.get('follows'):
                    was = s.train
                    s.train = None
                    if was in REQ_TYPES:
                        s.req_done = True
                        if was == 'REQUEST_CHANNEL' and f.get('complete'):
                            s.own_complete = True
                    else:
                        if f.get('complete'):
                            s.own_complete = True
            continue
        if s.role == 'requester' and not s.req_done:
            bad('frame_before_request_complete', 'frame_before_request:' + t)
        if t not in ALLOWED[(s.kind, s.role)]:
            bad('frame_type_not_allowed_for_role', 'type_not_allowed:%s:%s:%s' % (s.kind, s.role, t))
            continue
        # own-order rules
        if s.own_error:
            bad('frame_after_own_error', 'after_own_error:%s:%s:%s' % (s.kind, s.role, t))
        elif s.own_cancel and s.role == 'requester':
            bad('frame_after_own_cancel', 'after_own_cancel:%s:%s' % (s.kind, t))
        elif t == 'PAYLOAD' and s.own_complete:
            bad('payload_after_own_complete', 'payload_after_own_complete:%s:%s' % (s.kind, s.role))
        elif s.kind == 'ch' and s.own_complete and s.peer_complete and t in ('PAYLOAD', 'ERROR'):
            bad('frame_after_both_directions_completed', 'after_both_complete:%s:%s' % (s.kind, t))
        elif s.kind == 'rr' and s.role == 'requester' and t == 'CANCEL' and s.peer_complete:
            # decided after the response was yielded? (the done callback of the cancelled future is that moment)
            uid = tr.world.sid_map.get((side, sid))
            decided = last_rr_cancelled.get((side, uid))
            resp_seq = next((x['seq'] for x in tr.world.recv.get(side, []) if x['f']['sid'] == sid and
                             x['f']['type'] in ('PAYLOAD', 'ERROR') and not x['f'].get('follows')), None)
            if decided is None or resp_seq is None or decided > resp_seq:
                bad('cancel_after_response', 'cancel_after_response:rr')
        if t == 'PAYLOAD':
            if s.kind == 'rr' and s.role == 'responder' and s.payload_trains >= 1:
                bad('second_response', 'second_response:rr')
            if f.get('follows'):
                s.train = 'PAYLOAD'
                s.payload_trains += 1
            else:
                s.payload_trains += 1
                if f.get('complete'):
                    s.own_complete = True
        elif t == 'ERROR':
            s.own_error = True
        elif t == 'CANCEL':
            s.cancels += 1
            if s.cancels > 1:
                bad('cancel_sent_twice', 'cancel_twice:%s' % s.kind)
            s.own_cancel = True
    return out


def mon_wire_selfcheck(tr, pid):
    """What was written differs from the frame object handed to send_frame (decoded with the reference codec)."""
    out = []
    for side in ('c', 's'):
        for e in tr.world.wire.get(side, []):
            if e.get('wire_mismatch'):
                out.append(viol('wire_differs_from_frame_object', '%s:wire_mismatch:%s' % (pid, ','.join(e['wire_mismatch'])),
                                side=side, type=e['f']['type'], fields=e['wire_mismatch']))
            if e.get('wire_error'):
                out.append(viol('wire_not_decodable', '%s:wire_not_decodable' % pid, side=side, type=e['f']['type'],
                                err=e['wire_error']))
    return out
