"""Monitors: pure functions Trace -> [violation]. Each oracle is tied to a sentence of its property."""
from harness import app as A
from harness.common import viol

OTHER = {'c': 's', 's': 'c'}
MAXN = 0x7FFFFFFF


def events(tr, upto=None):
    return tr.world.log


def nonempty(d, m):
    return bool(d) or bool(m)


def _cmp_seq(expected, observed):
    """Classify the difference between two sequences of (data, metadata[, complete]) tuples."""
    if expected == observed:
        return None
    es, os_ = list(expected), list(observed)
    if len(os_) < len(es) and es[:len(os_)] == os_:
        return 'missing'
    if len(os_) > len(es) and os_[:len(es)] == es:
        return 'extra'
    if sorted(es) == sorted(os_):
        return 'reordered'
    # find first difference
    for i, (e, o) in enumerate(zip(es, os_)):
        if e != o:
            if o in es:
                return 'misplaced'
            tot_e = sum(len(x[0]) + len(x[1]) for x in es)
            tot_o = sum(len(x[0]) + len(x[1]) for x in os_)
            if tot_e == tot_o:
                return 'merged_or_split'
            return 'corrupted'
    return 'corrupted'


def _brief(seq, limit=6):
    return [[len(x[0]), len(x[1])] + list(x[2:]) for x in list(seq)[:limit]]


# ------------------------------------------------------------------------------------------------ C01

def mon_delivery(tr, pid='C01', require_complete=True, skip_uids=()):
    """Every non-empty payload handed to the library is observed at the peer's matching callback exactly once,
    intact, in order, on the right interaction. Judged at quiescence of a healed, fault-free run (then equality);
    otherwise only 'nothing foreign, nothing duplicated, order kept' (observed is a prefix of handed)."""
    out = []
    scn = tr.scn
    complete = require_complete and tr.quiet and not tr.faulted
    log = tr.world.log
    by_uid = {}
    mp_handled = {'c': [], 's': []}
    for e in log:
        if e['ev'] == 'handler' and e.get('k') == 'mp':
            mp_handled[e['side']].append((e['data'], e['metadata']))
        u = e.get('uid')
        if u is not None:
            by_uid.setdefault(u, []).append(e)
    mp_issued = {'c': [], 's': []}
    raw_side = scn.raw.side if getattr(scn, 'raw', None) is not None else None
    for uid in scn.started:
        st = scn.st[uid]
        spec = st['spec']
        k = spec['k']
        side = spec['side']
        peer = OTHER[side]
        evs = by_uid.get(uid, [])
        if st.get('issue_raised') or st.get('abandoned') or st.get('deferred'):
            continue  # (a publisher that was never subscribed to has not sent its request)
        d, m = A.payload_bytes(uid, A.TAG_REQ, 0, spec.get('req', [1, 0]))
        if k == 'mp':
            if m:
                mp_issued[peer].append((b'', m))
            continue
        if uid in skip_uids:
            continue
        handled = [e for e in evs if e['ev'] == 'handler' and e['side'] == peer]
        if peer == raw_side:
            pass  # the raw peer has no handler; what it received is judged by the wire monitors
        elif len(handled) > 1:
            out.append(viol('request_duplicated', pid + ':request_duplicated:' + k, uid=uid, k=k, n=len(handled)))
        elif len(handled) == 0:
            if complete and nonempty(d, m):
                out.append(viol('request_lost', pid + ':request_lost:' + k, uid=uid, k=k))
        else:
            h = handled[0]
            if (h['data'], h['metadata']) != (d, m) or h.get('k') != k:
                out.append(viol('request_corrupted', pid + ':request_corrupted:' + k, uid=uid, k=k,
                                sent=[len(d), len(m)], got=[len(h['data']), len(h['metadata'])], got_kind=h.get('k')))
        if k == 'rr' and side == raw_side:
            continue
        if k == 'rr':
            hands = [e for e in evs if e['ev'] == 'hand' and e['dir'] == 'resp']
            results = [e for e in evs if e['ev'] == 'rr_result']
            errors = [e for e in evs if e['ev'] in ('rr_error', 'rr_cancelled')]
            cancelled = any(e['ev'] == 'rr_cancel_call' for e in evs)
            if len(results) > 1:
                out.append(viol('response_duplicated', pid + ':response_duplicated', uid=uid))
            if results:
                r = results[0]
                if not hands or (hands[0]['data'], hands[0]['metadata']) != (r['data'], r['metadata']):
                    out.append(viol('response_corrupted', pid + ':response_corrupted', uid=uid,
                                    sent=_brief([(h['data'], h['metadata']) for h in hands]),
                                    got=[len(r['data']), len(r['metadata'])]))
            elif hands and complete and not cancelled and not errors:
                out.append(viol('response_lost', pid + ':response_lost', uid=uid))
            elif hands and errors and not cancelled and complete:
                out.append(viol('response_replaced_by_error', pid + ':response_replaced_by_error', uid=uid,
                                err=errors[0].get('exc')))
        if k in ('st', 'ch'):
            for dirn in ('resp', 'req'):
                hs = [(e['data'], e['metadata']) for e in evs if e['ev'] == 'hand' and e['dir'] == dirn
                      and nonempty(e['data'], e['metadata']) and e.get('run', 1) == 1]
                os_ = [(e['data'], e['metadata']) for e in evs if e['ev'] == 'on_next' and e['dir'] == dirn
                       and nonempty(e['data'], e['metadata'])]
                sub = st['sub'].get(dirn)
                has_sub = sub is not None
                if not has_sub and not os_:
                    continue
                if raw_side is not None and any(e['ev'] == 'hand' and e['dir'] == dirn and e['side'] != raw_side
                                                for e in evs) and not has_sub:
                    continue  # consumer is the raw peer
                interrupted = any(e['ev'] in ('sub_cancel', 'on_error') and e['dir'] == dirn for e in evs) or \
                    any(e['ev'] == 'hand_end' and e.get('how') == 'error' for e in evs) or \
                    any(e['ev'] in ('pub_cancel', 'src_on_cancel') and e['dir'] == dirn for e in evs)
                # a producer that fails after handing k elements: those k elements were handed before the error, so (with
                # nothing else disturbing the stream) all of them are owed to the consumer before its on_error
                own_error = any(e['ev'] == 'hand_end' and e.get('how') == 'error' and e.get('dir') == dirn for e in evs)
                other = any(e['ev'] == 'sub_cancel' for e in evs) or \
                    any(e['ev'] == 'hand_end' and e.get('how') == 'error' and e.get('dir') != dirn for e in evs) or \
                    any(e['ev'] in ('pub_cancel', 'src_on_cancel') and e['dir'] == dirn for e in evs) or \
                    any(e['ev'] == 'on_error' and e['dir'] != dirn for e in evs)
                if complete and (not interrupted or (own_error and not other and has_sub)):
                    diff = _cmp_seq(hs, os_)
                else:
                    diff = None if hs[:len(os_)] == os_ else (_cmp_seq(hs[:len(os_)], os_) or 'corrupted')
                if diff:
                    out.append(viol('elements_' + diff, '%s:elements_%s:%s:%s' % (pid, diff, k, dirn), uid=uid,
                                    dir=dirn, handed=_brief(hs), observed=_brief(os_), n_handed=len(hs),
                                    n_observed=len(os_)))
    for side in ('c', 's'):
        exp, got = mp_issued[side], mp_handled[side]
        if complete:
            diff = _cmp_seq(exp, got)
        else:
            diff = None if exp[:len(got)] == got else 'corrupted'
        if diff:
            out.append(viol('metadata_push_' + diff, '%s:metadata_push_%s' % (pid, diff), side=side,
                            sent=_brief(exp), got=_brief(got)))
    return out


# ------------------------------------------------------------------------------------------------ C05

def reassemble(sends):
    """Independent reassembler over one endpoint's send log. Returns (per-sid logical frame lists, violations)."""
    per = {}
    open_train = {}
    out = []
    for e in sends:
        f = e['f']
        sid = f['sid']
        t = f['type']
        if sid in open_train:
            cur = open_train[sid]
            if t != 'PAYLOAD':
                out.append(viol('frame_inside_train', 'C05:frame_inside_train:' + t, sid=sid, seq=e['seq'],
                                train_type=cur['type'], intruder=t))
                # the train is broken; close it as is
                per.setdefault(sid, []).append(cur)
                del open_train[sid]
            else:
                cur['metadata'] += f['metadata']
                cur['data'] += f['data']
                cur['fragments'] += 1
                cur['md_after_data'] = cur.get('md_after_data') or (bool(f['metadata']) and cur['_seen_data'])
                cur['_seen_data'] = cur['_seen_data'] or bool(f['data'])
                if not f['follows']:
                    cur['complete'] = f['complete']
                    cur['next'] = cur['next'] or f['next']
                    cur['last_seq'] = e['seq']
                    per.setdefault(sid, []).append(cur)
                    del open_train[sid]
                continue
        if t in ('PAYLOAD', 'REQUEST_RESPONSE', 'REQUEST_FNF', 'REQUEST_STREAM', 'REQUEST_CHANNEL') and f['follows']:
            open_train[sid] = {'type': t, 'sid': sid, 'data': f['data'], 'metadata': f['metadata'], 'n': f.get('n'),
                               'complete': f['complete'], 'next': f['next'], 'fragments': 1, 'seq': e['seq'],
                               '_seen_data': bool(f['data'])}
            continue
        g = dict(f)
        g['fragments'] = 1
        g['seq'] = e['seq']
        g['last_seq'] = e['seq']
        per.setdefault(sid, []).append(g)
    return per, open_train, out


def expected_wire(tr, side):
    """Per stream id, the logical frames this endpoint's application caused, in hand-over order:
    returns sid -> {'pub': [...], 'ctl': [...], 'all': [...] or None} (all = total order, only when every source on
    this side of the stream is a manual publisher or a future)."""
    scn = tr.scn
    exp = {}
    for uid in scn.started:
        st = scn.st[uid]
        spec = st['spec']
        sid = st['sid']
        if sid in (None, 0) or st.get('issue_raised'):
            continue
        k = spec['k']
        req_side = spec['side']
        rec = {'pub': [], 'ctl': [], 'all': [], 'uid': uid, 'k': k, 'role': 'requester' if side == req_side else 'responder'}
        total_ok = True
        for e in tr.world.log:
            if e.get('uid') != uid or e['side'] != side or e.get('run', 1) != 1:
                continue
            ev = e['ev']
            item = None
            cls = None
            if ev == 'issue':
                t = {'rr': 'REQUEST_RESPONSE', 'fnf': 'REQUEST_FNF', 'st': 'REQUEST_STREAM', 'ch': 'REQUEST_CHANNEL'}[k]
                item = {'type': t, 'data': e['data'], 'metadata': e['metadata']}
                cls = 'pub'
            elif ev == 'initial_n':
                # initial_n is logged after issue and before subscribe; attach to the request frame
                for it in rec['pub']:
                    if it['type'] in ('REQUEST_STREAM', 'REQUEST_CHANNEL'):
                        it['n'] = e['n']
                continue
            elif ev == 'hand':
                item = {'type': 'PAYLOAD', 'data': e['data'], 'metadata': e['metadata'], 'complete': e['complete'],
                        'next': True}
                cls = 'pub'
            elif ev == 'hand_end':
                if e['how'] == 'complete':
                    item = {'type': 'PAYLOAD', 'data': b'', 'metadata': b'', 'complete': True}
                else:
                    item = {'type': 'ERROR'}
                cls = 'pub'
            elif ev in ('handler_raises', 'hfut_fail'):
                item = {'type': 'ERROR'}  # a request-response handler that raised / whose future failed answers with an ERROR
                cls = 'pub'
            elif ev == 'gen_exhausted':
                src = spec.get('src') if e['dir'] == 'resp' else spec.get('rsrc')
                if src and src.get('end') != 'flag':
                    item = {'type': 'PAYLOAD', 'data': b'', 'metadata': b'', 'complete': True}
                    cls = 'pub'
            elif ev == 'sub_request':
                item = {'type': 'REQUEST_N', 'n': e['n']}
                cls = 'ctl'
            elif ev in ('sub_cancel', 'rr_cancel_call'):
                item = {'type': 'CANCEL'}
                cls = 'ctl'
            if item is None:
                continue
            item['app_seq'] = e['seq']
            rec[cls].append(item)
            rec['all'].append(item)
        for dirn, p in st['libpub'].items():
            if side_hosts_pub(st, dirn) == side:
                total_ok = False
        if not total_ok:
            rec['all'] = None
        exp[sid] = rec
    return exp


def side_hosts_pub(st, dirn):
    req_side = st['spec']['side']
    return OTHER[req_side] if dirn == 'resp' else req_side


def _frame_matches(item, fr):
    if item['type'] != fr['type']:
        return False
    t = item['type']
    if t == 'ERROR':
        return True
    if t == 'CANCEL':
        return True
    if t == 'REQUEST_N':
        return item['n'] == fr.get('n')
    if (item['data'], item['metadata']) != (fr['data'], fr['metadata']):
        return False
    if t == 'PAYLOAD':
        if bool(item.get('complete')) != bool(fr.get('complete')):
            return False
        if nonempty(item['data'], item['metadata']) and not fr.get('next'):
            return False
    if t in ('REQUEST_STREAM', 'REQUEST_CHANNEL') and 'n' in item and item['n'] != fr.get('n'):
        return False
    return True


def _brief_frames(frs, limit=8):
    out = []
    for f in list(frs)[:limit]:
        out.append({k: (len(v) if isinstance(v, (bytes, bytearray)) else v) for k, v in f.items()
                    if k in ('type', 'data', 'metadata', 'complete', 'n', 'next', 'fragments')})
    return out


def mon_wire_order(tr, pid='C05', sides=('c', 's')):
    """Per stream: fragment trains are contiguous, and the reassembled logical frames are exactly what the
    application handed over, in hand-over order (completion/error/cancel never overtake or split a payload)."""
    out = []
    complete = tr.quiet and not tr.faulted
    for side in sides:
        sends = tr.world.wire.get(side, [])
        per, open_train, vs = reassemble(sends)
        for v in vs:
            v['facts']['side'] = side
        out.extend(vs)
        if complete and open_train:
            for sid, cur in open_train.items():
                out.append(viol('train_never_finished', pid + ':train_never_finished', side=side, sid=sid,
                                fragments=cur['fragments']))
        exp = expected_wire(tr, side)
        for sid, rec in exp.items():
            frames = per.get(sid, [])
            # stop judging at the first terminal event of the stream caused by the peer (frames in flight after a
            # peer CANCEL/ERROR are not this endpoint's responsibility) -> handled by callers choosing programs
            pub_w = [f for f in frames if f['type'] in ('PAYLOAD', 'ERROR', 'REQUEST_RESPONSE', 'REQUEST_FNF',
                                                        'REQUEST_STREAM', 'REQUEST_CHANNEL')]
            ctl_w = [f for f in frames if f['type'] in ('REQUEST_N', 'CANCEL')]
            for name, want, got in (('pub', rec['pub'], pub_w), ('ctl', rec['ctl'], ctl_w)):
                n = min(len(want), len(got))
                bad = None
                for i in range(n):
                    if not _frame_matches(want[i], got[i]):
                        bad = i
                        break
                if bad is not None:
                    out.append(viol('wire_sequence_mismatch', '%s:wire_sequence_mismatch:%s' % (pid, name), side=side,
                                    sid=sid, uid=rec['uid'], role=rec['role'], k=rec['k'], index=bad,
                                    want=_brief_frames(want[bad:bad + 3]), got=_brief_frames(got[bad:bad + 3])))
                elif len(got) > len(want):
                    out.append(viol('wire_extra_frames', '%s:wire_extra_frames:%s' % (pid, name), side=side, sid=sid,
                                    uid=rec['uid'], role=rec['role'], k=rec['k'],
                                    extra=_brief_frames(got[len(want):])))
                elif complete and len(got) < len(want) and not tr_stream_interrupted(tr, rec['uid']):
                    out.append(viol('wire_missing_frames', '%s:wire_missing_frames:%s' % (pid, name), side=side,
                                    sid=sid, uid=rec['uid'], role=rec['role'], k=rec['k'],
                                    missing=_brief_frames(want[len(got):])))
            if rec['all'] is not None and not out:
                want = rec['all']
                got = frames
                n = min(len(want), len(got))
                for i in range(n):
                    if not _frame_matches(want[i], got[i]):
                        out.append(viol('wire_total_order_mismatch', pid + ':wire_total_order_mismatch', side=side,
                                        sid=sid, uid=rec['uid'], role=rec['role'], k=rec['k'], index=i,
                                        want=_brief_frames(want[i:i + 3]), got=_brief_frames(got[i:i + 3])))
                        break
    return out


def tr_stream_interrupted(tr, uid):
    """The stream was cut short by a cancel or an error from either side (frames queued after it may be dropped)."""
    for e in tr.world.log:
        if e.get('uid') == uid and e['ev'] in ('sub_cancel', 'rr_cancel_call', 'on_error', 'rr_error', 'pub_cancel',
                                               'src_on_cancel'):
            return True
        if e.get('uid') == uid and e['ev'] == 'hand_end' and e.get('how') == 'error':
            return True
    return False


# ------------------------------------------------------------------------------------------------ generic

def mon_no_loop_errors(tr, pid):
    out = []
    for err in tr.loop_errors:
        out.append(viol('unhandled_exception', '%s:unhandled_exception:%s' % (pid, err.get('type')), **err))
    return out


# ------------------------------------------------------------------------------------------------ C08

REQ_TYPES = {'REQUEST_RESPONSE': 'rr', 'REQUEST_FNF': 'fnf', 'REQUEST_STREAM': 'st', 'REQUEST_CHANNEL': 'ch'}
CONN_TYPES = ('SETUP', 'KEEPALIVE', 'LEASE', 'METADATA_PUSH', 'RESUME', 'RESUME_OK')
ALLOWED = {
    ('rr', 'requester'): {'CANCEL'},
    ('rr', 'responder'): {'PAYLOAD', 'ERROR'},
    ('fnf', 'requester'): set(),
    ('fnf', 'responder'): set(),
    ('st', 'requester'): {'REQUEST_N', 'CANCEL'},
    ('st', 'responder'): {'PAYLOAD', 'ERROR'},
    ('ch', 'requester'): {'PAYLOAD', 'REQUEST_N', 'CANCEL', 'ERROR'},
    ('ch', 'responder'): {'PAYLOAD', 'REQUEST_N', 'CANCEL', 'ERROR'},
}


class _S:
    """Per (endpoint, stream id) state as the endpoint itself has seen it."""
    __slots__ = ('kind', 'role', 'train', 'own_complete', 'own_error', 'own_cancel', 'peer_complete', 'peer_error',
                 'peer_cancel', 'payload_trains', 'req_done', 'peer_train', 'peer_req_done', 'cancels', 'flagged_late')

    def __init__(self, kind, role):
        self.kind, self.role = kind, role
        self.train = None  # type of the own fragment train in progress
        self.peer_train = False
        self.own_complete = self.own_error = self.own_cancel = False
        self.peer_complete = self.peer_error = self.peer_cancel = False
        self.payload_trains = 0
        self.req_done = False
        self.peer_req_done = False
        self.cancels = 0
        self.flagged_late = False

    def own_closed(self):
        """This endpoint will not legitimately send anything more on the stream."""
        if self.own_error or (self.own_cancel and self.role == 'requester'):
            return True
        if self.kind == 'fnf':
            return self.req_done or self.role == 'responder'
        if self.kind == 'rr':
            return self.own_complete if self.role == 'responder' else False
        if self.kind == 'st':
            return self.own_complete if self.role == 'responder' else False
        return False

    def terminated(self):
        """Both directions are over from this endpoint's point of view (the id may be used again)."""
        if self.own_error or self.peer_error:
            return True
        if self.role == 'requester' and self.own_cancel:
            return True
        if self.role == 'responder' and self.peer_cancel:
            return True
        if self.kind == 'fnf':
            return self.req_done if self.role == 'requester' else self.peer_req_done
        if self.kind in ('rr', 'st'):
            return self.peer_complete if self.role == 'requester' else self.own_complete
        if self.kind == 'ch':
            return self.own_complete and self.peer_complete
        return False


def mon_protocol(tr, pid='C08', decision=None):
    """Everything an endpoint puts on the wire is legal for its role (statement of C08), judged on the endpoint's own
    interleaved send/receive log. Rules that depend on receptions use the moment the library decided to emit where
    the harness can know it (request-response CANCEL: the future's done callback), otherwise only the endpoint's own
    send order is judged, so frames already queued when a peer frame arrives are never blamed."""
    out = []
    parity = {'c': 1, 's': 0}
    setup_by_tr = {}
    first_by_tr = {}
    states = {'c': {}, 's': {}}
    cur_cx = {'c': 0, 's': 0}
    last_rr_cancelled = {}
    for e in tr.world.log:
        side = e['side']
        if side not in ('c', 's'):
            continue
        if e['ev'] == 'rr_cancelled':
            last_rr_cancelled[(side, e['uid'])] = e['seq']
            continue
        if e['ev'] == 'queued':
            # the moment the endpoint decided to emit: after it has received the frame that ended a request-response or a
            # stream it requested, it has nothing more to say on that stream
            s_ = states[side].get(e.get('sid'))
            if s_ is not None and s_.role == 'requester' and s_.kind in ('rr', 'st') and (s_.peer_complete or s_.peer_error) and \
                    e.get('ftype') in ('RequestNFrame', 'CancelFrame', 'PayloadFrame', 'ErrorFrame') and not s_.flagged_late:
                s_.flagged_late = True
                out.append(viol('frame_queued_after_stream_ended', '%s:queued_after_end:%s:%s' % (pid, s_.kind, e.get('ftype')),
                                side=side, sid=e.get('sid'), type=e.get('ftype'), seq=e['seq']))
            continue
        if e['ev'] not in ('send', 'recv'):
            continue
        f = e['f']
        t = f['type']
        sid = f['sid']
        # a new connection of this endpoint (reconnect): nothing of the previous one carries over
        if e.get('cx') is not None and e['cx'] > cur_cx[side]:
            cur_cx[side] = e['cx']
            states[side] = {}
        st = states[side]

        def bad(kind, sig=None, **kw):
            out.append(viol(kind, '%s:%s' % (pid, sig or kind), side=side, sid=sid, type=t, seq=e['seq'], **kw))

        if e['ev'] == 'recv':
            if t == 'INVALID' or sid in (None, 0):
                continue
            s = st.get(sid)
            if t in REQ_TYPES:
                if s is None or s.terminated():
                    s = st[sid] = _S(REQ_TYPES[t], 'responder')
                    s.peer_train = bool(f.get('follows'))
                    s.peer_req_done = not s.peer_train
                    if t == 'REQUEST_CHANNEL' and f.get('complete') and not f.get('follows'):
                        s.peer_complete = True
                continue
            if s is None:
                continue
            if t == 'PAYLOAD':
                if s.peer_train and not s.peer_req_done:
                    if not f.get('follows'):
                        s.peer_req_done = True
                        s.peer_train = False
                        if s.kind == 'ch' and f.get('complete'):
                            s.peer_complete = True
                    continue
                if f.get('complete') and not f.get('follows'):
                    s.peer_complete = True
            elif t == 'ERROR':
                s.peer_error = True
            elif t == 'CANCEL':
                s.peer_cancel = True
            continue

        # ---- send
        trid = e.get('tr')
        if trid not in first_by_tr:
            first_by_tr[trid] = t
            if side == 'c' and t != 'SETUP':
                bad('first_frame_not_setup', 'setup_not_first', first=t)
        if t == 'SETUP':
            if side == 's':
                bad('server_sent_setup')
            setup_by_tr[trid] = setup_by_tr.get(trid, 0) + 1
            if setup_by_tr[trid] > 1:
                bad('setup_sent_twice')
        if t in CONN_TYPES:
            if sid != 0:
                bad('connection_frame_on_stream', 'connection_frame_on_stream:' + t)
            continue
        if sid == 0:
            if t != 'ERROR':
                bad('stream_frame_on_connection_stream', 'stream_frame_on_stream_0:' + t)
            continue
        if f.get('follows') and f.get('complete') and t in ('PAYLOAD', 'REQUEST_CHANNEL'):
            # COMPLETE says "this was my last payload on the stream"; a fragment that announces more fragments cannot say it
            bad('complete_flag_before_last_fragment', 'complete_before_last_fragment:' + t)
        s = st.get(sid)
        if t in REQ_TYPES:
            if s is not None and not s.terminated() and not (s.role == 'responder' and s.own_closed()):
                bad('request_on_live_stream_id', 'request_on_live_id')
            if sid % 2 != parity[side]:
                bad('wrong_stream_id_parity', 'wrong_parity')
            if t in ('REQUEST_STREAM', 'REQUEST_CHANNEL') and not (f.get('n') or 0) > 0:
                bad('non_positive_initial_request_n', 'initial_request_n', n=f.get('n'))
            s = st[sid] = _S(REQ_TYPES[t], 'requester')
            if f.get('follows'):
                s.train = t
            else:
                s.req_done = True
                if t == 'REQUEST_CHANNEL' and f.get('complete'):
                    s.own_complete = True
            continue
        if s is None:
            bad('frame_on_unopened_stream', 'frame_on_unopened_stream:' + t)
            continue
        # continuation of the own request train
        if s.train is not None:
            if t != 'PAYLOAD':
                bad('frame_inside_fragment_train', 'frame_inside_train:' + t)
            else:
                if not f.get('follows'):
                    was = s.train
                    s.train = None
                    if was in REQ_TYPES:
                        s.req_done = True
                        if was == 'REQUEST_CHANNEL' and f.get('complete'):
                            s.own_complete = True
                    else:
                        if f.get('complete'):
                            s.own_complete = True
            continue
        if s.role == 'requester' and not s.req_done:
            bad('frame_before_request_complete', 'frame_before_request:' + t)
        if t not in ALLOWED[(s.kind, s.role)]:
            bad('frame_type_not_allowed_for_role', 'type_not_allowed:%s:%s:%s' % (s.kind, s.role, t))
            continue
        # own-order rules
        if s.own_error:
            bad('frame_after_own_error', 'after_own_error:%s:%s:%s' % (s.kind, s.role, t))
        elif s.own_cancel and s.role == 'requester':
            bad('frame_after_own_cancel', 'after_own_cancel:%s:%s' % (s.kind, t))
        elif t == 'PAYLOAD' and s.own_complete:
            bad('payload_after_own_complete', 'payload_after_own_complete:%s:%s' % (s.kind, s.role))
        elif s.kind == 'ch' and s.own_complete and s.peer_complete and t in ('PAYLOAD', 'ERROR'):
            bad('frame_after_both_directions_completed', 'after_both_complete:%s:%s' % (s.kind, t))
        elif s.kind == 'rr' and s.role == 'requester' and t == 'CANCEL' and (s.peer_complete or s.peer_error):
            # decided after the response was yielded? (the done callback of the cancelled future is that moment)
            uid = tr.world.sid_map.get((side, sid))
            decided = last_rr_cancelled.get((side, uid))
            resp_seq = next((x['seq'] for x in tr.world.recv.get(side, []) if x['f']['sid'] == sid and
                             x['f']['type'] in ('PAYLOAD', 'ERROR') and not x['f'].get('follows')), None)
            if decided is None or resp_seq is None or decided > resp_seq:
                bad('cancel_after_response', 'cancel_after_response:rr')
        if t == 'PAYLOAD':
            if s.kind == 'rr' and s.role == 'responder' and s.payload_trains >= 1:
                bad('second_response', 'second_response:rr')
            if f.get('follows'):
                s.train = 'PAYLOAD'
                s.payload_trains += 1
            else:
                s.payload_trains += 1
                if f.get('complete'):
                    s.own_complete = True
        elif t == 'ERROR':
            s.own_error = True
        elif t == 'CANCEL':
            s.cancels += 1
            if s.cancels > 1:
                bad('cancel_sent_twice', 'cancel_twice:%s' % s.kind)
            s.own_cancel = True
    return out


def mon_wire_selfcheck(tr, pid):
    """What was written differs from the frame object handed to send_frame (decoded with the reference codec)."""
    out = []
    for side in ('c', 's'):
        for e in tr.world.wire.get(side, []):
            if e.get('wire_mismatch'):
                out.append(viol('wire_differs_from_frame_object', '%s:wire_mismatch:%s' % (pid, ','.join(e['wire_mismatch'])),
                                side=side, type=e['f']['type'], fields=e['wire_mismatch']))
            if e.get('wire_error'):
                out.append(viol('wire_not_decodable', '%s:wire_not_decodable' % pid, side=side, type=e['f']['type'],
                                err=e['wire_error']))
    return out


# ------------------------------------------------------------------------------------------------ C06

def _sat(a, b):
    return min(MAXN, a + b)


def mon_credit(tr, pid='C06', judge_completeness=True):
    """Producer never sends more elements than the credit it has received so far (its own local view); at quiescence of
    an undisturbed run it has sent min(#elements, credit) and the consumer got exactly those; credit granted by the
    application is transmitted value for value."""
    out = []
    scn = tr.scn
    complete_run = tr.quiet and not tr.faulted
    for uid in scn.started:
        st = scn.st[uid]
        spec = st['spec']
        if spec['k'] not in ('st', 'ch') or st.get('issue_raised') or st['sid'] in (None, 0):
            continue
        sid = st['sid']
        req_side = spec['side']
        for dirn in ('resp', 'req'):
            if dirn == 'req' and spec['k'] != 'ch':
                continue
            src = spec.get('src') if dirn == 'resp' else spec.get('rsrc')
            prod = OTHER[req_side] if dirn == 'resp' else req_side
            cons = OTHER[prod]
            # generation: a reused stream id belongs to this interaction only after its issue event
            issue_seq = next((e['seq'] for e in tr.world.log if e['ev'] == 'issue' and e.get('uid') == uid), 0)
            end_seq = min([e['seq'] for e in tr.world.log if e['ev'] == 'issue' and e.get('sid') == sid and
                           e['side'] == req_side and e['seq'] > issue_seq] or [1 << 60])
            credit = 0
            sent = 0
            in_train = False
            req_in_train = False
            over = None
            for e in tr.world.log:
                if e['seq'] < issue_seq or e['seq'] >= end_seq or e['side'] != prod or e['ev'] not in ('send', 'recv'):
                    continue
                f = e['f']
                if f['sid'] != sid:
                    continue
                if e['ev'] == 'recv':
                    if f['type'] in ('REQUEST_STREAM', 'REQUEST_CHANNEL') and dirn == 'resp':
                        credit = _sat(credit, f.get('n') or 0)
                    elif f['type'] == 'REQUEST_N':
                        credit = _sat(credit, f.get('n') or 0)
                    continue
                if f['type'] in ('REQUEST_CHANNEL', 'REQUEST_STREAM', 'REQUEST_RESPONSE', 'REQUEST_FNF'):
                    req_in_train = bool(f.get('follows'))
                    continue
                if f['type'] != 'PAYLOAD':
                    continue
                if req_in_train:
                    req_in_train = bool(f.get('follows'))
                    continue
                start = not in_train
                in_train = bool(f.get('follows'))
                if start and f.get('next') and nonempty(f['data'], f['metadata']):
                    sent += 1
                    if sent > credit and over is None:
                        over = {'sent': sent, 'credit': credit, 'seq': e['seq']}
            kind = (src or {}).get('kind', 'none')
            if over:
                out.append(viol('sent_more_than_credit', '%s:over_credit:%s:%s' % (pid, kind, dirn), uid=uid, dir=dirn,
                                source=kind, **over))
            if src is None:
                continue
            evs = [e for e in tr.world.log if e.get('uid') == uid]
            # (a channel responder that cancels the requester's direction closes that direction only: its own direction
            # still owes every element that gets credit)
            other_half_only = ('sub_cancel', 'pub_cancel', 'src_on_cancel')
            disturbed = any(e['ev'] in ('sub_cancel', 'on_error', 'pub_cancel', 'src_on_cancel', 'rr_cancel_call')
                            and not (spec['k'] == 'ch' and dirn == 'resp' and e['ev'] in other_half_only and e.get('dir') == 'req')
                            for e in evs) or any(e['ev'] == 'hand_end' and e.get('how') == 'error' for e in evs)
            n_els = sum(1 for l in src.get('els', []) if l[0] or l[1])
            observed = sum(1 for e in evs if e['ev'] == 'on_next' and e['dir'] == dirn and e['side'] == cons
                           and nonempty(e['data'], e['metadata']))
            if complete_run and not disturbed and judge_completeness and kind != 'manual':
                want = min(n_els, credit)
                if sent != want:
                    out.append(viol('credit_not_used' if sent < want else 'sent_more_than_credit',
                                    '%s:%s:%s:%s' % (pid, 'stalled_with_credit' if sent < want else 'over_credit', kind, dirn),
                                    uid=uid, dir=dirn, source=kind, sent=sent, credit=credit, elements=n_els))
                elif observed != sent and st['sub'].get(dirn) is not None:
                    out.append(viol('sent_elements_not_delivered', '%s:sent_not_delivered:%s:%s' % (pid, kind, dirn),
                                    uid=uid, dir=dirn, sent=sent, observed=observed))
            # credit granted by the consumer's application is transmitted value for value
            sub = st['sub'].get(dirn)
            if sub is not None:
                granted = [e['n'] for e in evs if e['ev'] in ('initial_n', 'sub_request') and e['dir'] == dirn and e['side'] == cons]
                wire = []
                for e in tr.world.wire.get(cons, []):
                    if e['seq'] < issue_seq or e['seq'] >= end_seq or e['f']['sid'] != sid:
                        continue
                    t = e['f']['type']
                    if t in ('REQUEST_STREAM', 'REQUEST_CHANNEL') and dirn == 'resp':
                        wire.append(e['f'].get('n'))
                    elif t == 'REQUEST_N':
                        wire.append(e['f'].get('n'))
                cmp_granted = granted if complete_run else granted[:len(wire)]
                if wire != cmp_granted[:len(wire)] or (complete_run and len(wire) != len(granted)):
                    out.append(viol('credit_not_transmitted_exactly', '%s:credit_values:%s' % (pid, dirn), uid=uid,
                                    dir=dirn, granted=granted[:10], wire=wire[:10]))
    return out


# ------------------------------------------------------------------------------------------------ C09

def _generation_window(tr, uid, sid, req_side):
    issue_seq = next((e['seq'] for e in tr.world.log if e['ev'] == 'issue' and e.get('uid') == uid), 0)
    end_seq = min([e['seq'] for e in tr.world.log if e['ev'] == 'issue' and e.get('sid') == sid and
                   e['side'] == req_side and e['seq'] > issue_seq] or [1 << 60])
    return issue_seq, end_seq


def mon_cancel(tr, pid='C09'):
    """For every cancel the application issued while the interaction was pending: exactly one CANCEL on the canceller's
    wire, nothing delivered to the canceller afterwards, and - once the CANCEL was delivered and the run is quiet -
    the peer's producer was cancelled and produced nothing after processing the CANCEL."""
    out = []
    scn = tr.scn
    log = tr.world.log
    quiet = tr.quiet and not tr.faulted
    for uid in scn.started:
        st = scn.st[uid]
        spec = st['spec']
        sid = st['sid']
        if sid in (None, 0) or st.get('issue_raised'):
            continue
        k = spec['k']
        req_side = spec['side']
        lo, hi = _generation_window(tr, uid, sid, req_side)
        evs = [e for e in log if e.get('uid') == uid]
        cancels = [e for e in evs if e['ev'] in ('sub_cancel', 'rr_cancel_call')]
        for c in cancels:
            side = c['side']
            peer = OTHER[side]
            dirn = c.get('dir', 'resp')
            facts = dict(uid=uid, k=k, dir=dirn, canceller=side)
            sent_cancels = [e for e in tr.world.wire.get(side, []) if lo <= e['seq'] < hi and e['f']['sid'] == sid
                            and e['f']['type'] == 'CANCEL']
            if len(sent_cancels) > 1:
                out.append(viol('cancel_sent_twice', '%s:cancel_twice:%s' % (pid, k), n=len(sent_cancels), **facts))
            if k == 'rr':
                done = next((e['seq'] for e in evs if e['ev'] == 'rr_cancelled'), None)
                resp = next((e['seq'] for e in tr.world.recv.get(side, []) if lo <= e['seq'] < hi and e['f']['sid'] == sid
                             and e['f']['type'] in ('PAYLOAD', 'ERROR') and not e['f'].get('follows')), None)
                raced = done is not None and resp is not None and resp < done
                if quiet and not raced and len(sent_cancels) != 1:
                    out.append(viol('cancel_not_sent', '%s:cancel_not_sent:rr' % pid, **facts))
                late = [e for e in evs if e['ev'] in ('rr_result', 'rr_error') and e['seq'] > c['seq']]
                if late:
                    out.append(viol('delivered_after_cancel', '%s:delivered_after_cancel:rr' % pid, what=late[0]['ev'], **facts))
            else:
                if quiet and len(sent_cancels) != 1:
                    out.append(viol('cancel_not_sent', '%s:cancel_not_sent:%s' % (pid, k), n=len(sent_cancels), **facts))
                ret = next((e['seq'] for e in evs if e['ev'] == 'sub_cancel_returned' and e['side'] == side and
                            e['dir'] == dirn and e['seq'] > c['seq']), None)
                if ret is None:
                    out.append(viol('cancel_raised', '%s:cancel_raised:%s' % (pid, k), **facts))
                    ret = c['seq']
                late = [e for e in evs if e['ev'] in ('on_next', 'on_complete', 'on_error') and e['side'] == side
                        and e['dir'] == dirn and e['seq'] > ret]
                if late:
                    out.append(viol('delivered_after_cancel', '%s:delivered_after_cancel:%s:%s' % (pid, k, late[0]['ev']),
                                    what=late[0]['ev'], **facts))
            # peer side
            cancel_recv = next((e['seq'] for e in tr.world.recv.get(peer, []) if lo <= e['seq'] and e['f']['sid'] == sid
                                and e['f']['type'] == 'CANCEL'), None)
            if cancel_recv is None or not quiet:
                continue
            # the stream may have been over on the peer already (then the CANCEL is legitimately dropped)
            if k == 'rr':
                hdone = next((e for e in evs if e['ev'] == 'hfut_done'), None)
                hcalled = any(e['ev'] == 'handler' and e['side'] == peer for e in evs)
                mode = spec.get('resp', {}).get('mode', 'now')
                resolved_before = any(e['ev'] in ('hand', 'hfut_fail') and e['seq'] < cancel_recv for e in evs
                                      if e['side'] == peer)
                if hcalled and mode not in ('raise',) and not resolved_before:
                    if hdone is None:
                        out.append(viol('producer_not_cancelled', '%s:producer_not_cancelled:rr' % pid, **facts))
                    elif not hdone['cancelled'] and hdone['seq'] > cancel_recv:
                        out.append(viol('producer_not_cancelled', '%s:producer_finished_after_cancel:rr' % pid, **facts))
                continue
            src = spec.get('src') if dirn == 'resp' else spec.get('rsrc')
            if src is None:
                continue
            kind = src.get('kind', 'manual')
            pe = [e for e in evs if e['side'] == peer and e.get('dir') == dirn]
            subscribed = any(e['ev'] in ('pub_subscribed', 'gen_start', 'obs_subscribed') for e in pe) or kind in ('gen', 'agen')
            handler_called = any(e['ev'] == 'handler' and e['side'] == peer for e in evs) or dirn == 'req'
            finished_before = any(e['ev'] in ('hand_end', 'src_on_complete', 'gen_exhausted') and e['seq'] < cancel_recv
                                  for e in pe) or \
                any(e['ev'] == 'hand' and e.get('complete') and e['seq'] < cancel_recv for e in pe)
            terminal_sent_before = any(e['seq'] < cancel_recv and lo <= e['seq'] and e['f']['sid'] == sid and
                                       ((e['f']['type'] == 'PAYLOAD' and e['f'].get('complete') and not e['f'].get('follows'))
                                        or e['f']['type'] == 'ERROR') for e in tr.world.wire.get(peer, []))
            # the producer may have finished on its own while the CANCEL was under way (its terminal frame is queued or
            # sent, nothing is yielded after the CANCEL): then there is nothing left to cancel
            terminal_sent = any(lo <= e['seq'] < hi and e['f']['sid'] == sid and
                                ((e['f']['type'] == 'PAYLOAD' and e['f'].get('complete') and not e['f'].get('follows'))
                                 or e['f']['type'] == 'ERROR') for e in tr.world.wire.get(peer, []))
            hand_after = any(e['ev'] == 'hand' and e['seq'] > cancel_recv and e.get('run', 1) == 1 for e in pe)
            if not handler_called or spec.get('handler_raises') or terminal_sent_before:
                continue
            if kind == 'manual':
                if subscribed and not finished_before and not any(e['ev'] == 'pub_cancel' for e in pe):
                    out.append(viol('producer_not_cancelled', '%s:producer_not_cancelled:manual:%s' % (pid, dirn), **facts))
            elif kind in ('gen', 'agen'):
                if not finished_before:
                    if not any(e['ev'] == 'src_on_cancel' for e in pe):
                        out.append(viol('producer_not_cancelled', '%s:producer_not_cancelled:%s:%s' % (pid, kind, dirn), **facts))
                    started = [e for e in pe if e['ev'] == 'gen_start' and e.get('run', 1) == 1]
                    if started and not any(e['ev'] == 'gen_finally' and e.get('run', 1) == 1 for e in pe):
                        out.append(viol('generator_not_closed', '%s:generator_not_closed:%s:%s' % (pid, kind, dirn), **facts))
            elif kind.endswith('bp'):
                if not finished_before and any(e['ev'] == 'gen_start' for e in pe) and \
                        not any(e['ev'] in ('feedback_completed', 'gen_finally') for e in pe):
                    out.append(viol('producer_not_cancelled', '%s:producer_not_cancelled:%s:%s' % (pid, kind, dirn), **facts))
            # production stops: nothing yielded / handed after the CANCEL was processed
            # (a generator publisher that is asked for more after it was cancelled must not start over either: run > 1)
            late_hand = [e for e in pe if e['ev'] == 'hand' and e['seq'] > cancel_recv]
            if late_hand:
                out.append(viol('production_after_cancel', '%s:production_after_cancel:%s:%s' % (pid, kind, dirn),
                                n=len(late_hand), **facts))
            handed_before = sum(1 for e in pe if e['ev'] == 'hand' and e['seq'] < cancel_recv and e.get('run', 1) == 1
                                and nonempty(e['data'], e['metadata']))
            sent_els = 0
            in_train = False
            req_train = False
            for e in tr.world.wire.get(peer, []):
                if not (lo <= e['seq'] < hi) or e['f']['sid'] != sid:
                    continue
                f = e['f']
                if f['type'] in REQ_TYPES:
                    req_train = bool(f.get('follows'))
                    continue
                if f['type'] != 'PAYLOAD':
                    continue
                if req_train:
                    req_train = bool(f.get('follows'))
                    continue
                start = not in_train
                in_train = bool(f.get('follows'))
                if start and f.get('next') and nonempty(f['data'], f['metadata']):
                    sent_els += 1
            if sent_els > handed_before + sum(1 for e in pe if e['ev'] == 'hand' and e['seq'] > cancel_recv):
                out.append(viol('payload_after_cancel', '%s:payload_after_cancel:%s:%s' % (pid, kind, dirn),
                                sent=sent_els, handed_before_cancel=handed_before, **facts))
            # whatever the publisher had pulled ahead and was still holding (a paced library source hands its backlog over
            # one element at a time) is not emitted either: after the peer processed the CANCEL it decides to emit no
            # further payload on this stream (decision time = the frame entering the send queue, not the write)
            late_q = [e for e in log if e['ev'] == 'queued' and e['side'] == peer and e.get('sid') == sid and
                      cancel_recv < e['seq'] < hi and e.get('ftype') == 'PayloadFrame']
            if late_q:
                out.append(viol('payload_after_cancel', '%s:payload_queued_after_cancel:%s:%s' % (pid, kind, dirn),
                                n=len(late_q), **facts))
    return out


# ------------------------------------------------------------------------------------------------ C10

def api_terminated(tr, uid):
    """The interaction is over as far as the application can tell (terminal signal observed or cancel issued in every
    direction it takes part in, publishers done)."""
    st = tr.scn.st[uid]
    spec = st['spec']
    k = spec['k']
    evs = [e for e in tr.world.log if e.get('uid') == uid]
    if st.get('issue_raised') or st.get('abandoned'):
        return True
    if k == 'mp':
        return True
    if k == 'fnf':
        return any(e['ev'] == 'fnf_sent' for e in evs)
    if k == 'rr':
        return any(e['ev'] in ('rr_result', 'rr_error', 'rr_cancelled') for e in evs)

    def sub_done(dirn):
        s = st['sub'].get(dirn)
        if s is None:
            return True
        return s.terminal or s.cancelled

    def pub_done(dirn):
        p = st['pub'].get(dirn)
        if p is not None:
            return p.done or p.cancelled
        if dirn in st['libpub']:
            pe = [e for e in evs if e.get('dir') == dirn]
            return any(e['ev'] in ('src_on_complete', 'src_on_cancel', 'hand_end', 'feedback_completed', 'gen_finally')
                       for e in pe) or any(e['ev'] == 'hand' and e.get('complete') for e in pe)
        return True

    if k == 'st':
        return sub_done('resp')
    # channel: a requester-side error/cancel ending leaves the other direction to finish on its own
    return sub_done('resp') and sub_done('req') and pub_done('resp') and pub_done('req')


def mon_no_state(tr, pid='C10', skip_uids=()):
    """At quiescence neither endpoint keeps a stream table entry or a partial frame for an interaction that has
    terminated at the API; when everything has terminated both tables and both caches are empty."""
    out = []
    if not tr.quiet or tr.faulted:
        return out
    scn = tr.scn
    term = {uid: api_terminated(tr, uid) for uid in scn.started}
    for side in ('c', 's'):
        fin = tr.final[side]
        for sid in fin['streams']:
            # which interaction does this id belong to now? (ids may have been reused)
            owners = [uid for uid in scn.started if scn.st[uid]['sid'] == sid and
                      (scn.st[uid]['spec']['side'] == side or scn.st[uid]['spec']['side'] == OTHER[side])
                      and (sid % 2 == 1) == (scn.st[uid]['spec']['side'] == 'c')]
            if not owners:
                out.append(viol('stream_entry_for_unknown_interaction', '%s:unknown_entry' % pid, side=side, sid=sid))
                continue
            uid = owners[-1]
            if uid in skip_uids:
                continue  # (see the caller: an id re-used while frames of its cancelled previous life were still in flight)
            if term[uid]:
                spec = scn.st[uid]['spec']
                role = 'requester' if spec['side'] == side else 'responder'
                out.append(viol('stream_state_survives', '%s:leak:%s:%s' % (pid, spec['k'], role), side=side, sid=sid,
                                uid=uid, k=spec['k'], role=role, ending=_ending(tr, uid)))
        if fin['frags']:
            out.append(viol('partial_frame_survives', '%s:partial_frame' % pid, side=side, sids=fin['frags']))
    return out


def _ending(tr, uid):
    kinds = []
    for e in tr.world.log:
        if e.get('uid') == uid and e['ev'] in ('sub_cancel', 'rr_cancel_call', 'on_error', 'rr_error', 'on_complete',
                                               'rr_result', 'hand_end', 'pub_cancel', 'src_on_cancel', 'rr_cancelled'):
            kinds.append('%s@%s' % (e['ev'], e['side']))
    return kinds[:12]


# ------------------------------------------------------------------------------------------------ C07

def mon_terminal_once(tr, pid='C07', require_done=False):
    """Every subscriber the library drives: on_subscribe first, then elements, then at most one terminal signal and
    nothing after it. Every request-response awaitable: exactly one outcome, no second resolution attempted."""
    out = []
    per = {}
    for e in tr.world.log:
        if e['ev'] in ('on_subscribe', 'on_next', 'on_complete', 'on_error'):
            per.setdefault((e['side'], e['uid'], e['dir']), []).append(e)
    for (side, uid, dirn), evs in per.items():
        k = tr.scn.st[uid]['spec']['k']
        facts = dict(side=side, uid=uid, dir=dirn, k=k, signals=[(x['ev'] + ('!' if x.get('complete') else '')) for x in evs][:12])
        if evs[0]['ev'] != 'on_subscribe':
            out.append(viol('signal_before_on_subscribe', '%s:before_on_subscribe:%s' % (pid, k), **facts))
        if sum(1 for x in evs if x['ev'] == 'on_subscribe') > 1:
            out.append(viol('on_subscribe_twice', '%s:on_subscribe_twice:%s' % (pid, k), **facts))
        term = None
        for i, x in enumerate(evs):
            is_term = x['ev'] in ('on_complete', 'on_error') or (x['ev'] == 'on_next' and x.get('complete'))
            if term is not None and x['ev'] != 'on_subscribe':
                out.append(viol('signal_after_terminal', '%s:after_terminal:%s:%s_after_%s' % (pid, k, x['ev'], term),
                                first=term, later=x['ev'], **facts))
                break
            if is_term:
                term = x['ev'] + ('(complete)' if x['ev'] == 'on_next' else '')
    outcomes = {}
    for e in tr.world.log:
        if e['ev'] in ('rr_result', 'rr_error', 'rr_cancelled'):
            outcomes.setdefault(e['uid'], []).append(e['ev'])
    for uid, o in outcomes.items():
        if len(o) > 1:
            out.append(viol('awaitable_resolved_twice', '%s:awaitable_twice' % pid, uid=uid, outcomes=o))
    for err in tr.loop_errors:
        if err.get('type') == 'InvalidStateError' or 'InvalidStateError' in (err.get('exception') or ''):
            out.append(viol('second_resolution_attempted', '%s:invalid_state:loop' % pid, **err))
    for side in tr.scn.sock:
        for e in tr.world.wire.get(side, []):
            f = e['f']
            if f['type'] == 'ERROR' and b'invalid state' in bytes(f.get('data') or b'').lower():
                out.append(viol('second_resolution_attempted', '%s:invalid_state:wire' % pid, side=side, sid=f['sid']))
    if require_done:
        for uid in tr.scn.started:
            st = tr.scn.st[uid]
            if st['spec']['k'] == 'rr' and st.get('fut') is not None and not st.get('issue_raised'):
                if uid not in outcomes:
                    out.append(viol('awaitable_left_pending', '%s:awaitable_pending' % pid, uid=uid))
    return out


def mon_subscribers_terminated(tr, pid, side):
    """After the connection of `side` has ended (lost or closed) every subscriber of that endpoint that was subscribed and
    has not cancelled itself has received its terminal signal ('at most one' is judged elsewhere; this is 'not zero')."""
    out = []
    per = {}
    for e in tr.world.log:
        if e['side'] == side and e['ev'] in ('on_subscribe', 'on_next', 'on_complete', 'on_error', 'sub_cancel'):
            per.setdefault((e['uid'], e['dir']), []).append(e)
    for (uid, dirn), evs in per.items():
        if not any(x['ev'] == 'on_subscribe' for x in evs) or any(x['ev'] == 'sub_cancel' for x in evs):
            continue
        if not any(x['ev'] in ('on_complete', 'on_error') or (x['ev'] == 'on_next' and x.get('complete')) for x in evs):
            k = tr.scn.st[uid]['spec']['k']
            out.append(viol('subscriber_left_without_terminal_signal', '%s:no_terminal:%s:%s' % (pid, k, dirn), side=side, uid=uid,
                            dir=dirn, signals=[x['ev'] for x in evs][:10]))
    return out


# ------------------------------------------------------------------------------------------------ C11

def scripted_error(spec):
    """Does the scenario itself make this interaction end with an (application) error?"""
    if spec.get('handler_raises') or spec.get('resp', {}).get('mode') in ('fail', 'raise', 'fail_late', 'cancelled', 'cancel_late'):
        return True
    for key in ('src', 'rsrc'):
        src = spec.get(key) or {}
        if src.get('end') == 'error' or src.get('err_at') is not None or src.get('raise_in') or src.get('cancel_raises'):
            return True
    sub = spec.get('sub') or {}
    return bool(sub.get('raise_at'))


def mon_connection_loss(tr, pid='C11', affected=('c', 's'), settled_mark='settled'):
    """After the connection was lost or closed: every request pending at that moment failed with an error, responder-side
    producers cancelled, on_close exactly once per affected endpoint, nothing sent after the settle point, tasks done."""
    out = []
    log = tr.world.log
    fault = next((e for e in log if (e['side'] == 'net' and e['ev'] == 'cut') or e['ev'] == 'close_call'), None)
    if fault is None:
        return out
    fseq = fault['seq']
    fkind = 'cut:' + fault.get('mode', '') if fault['ev'] == 'cut' else 'close'
    scn = tr.scn
    real = set(scn.sock)
    affected = [s for s in affected if s in real]
    mark = next((e['seq'] for e in log if e['ev'] == 'mark' and e.get('name') == settled_mark), None)
    for uid in scn.started:
        st = scn.st[uid]
        spec = st['spec']
        k = spec['k']
        if st.get('issue_raised'):
            continue
        if st.get('deferred') or (any(e['ev'] == 'subscribe_deferred' and e.get('uid') == uid for e in log) and not any(
                e['ev'] == 'subscribe_late' and e.get('uid') == uid and e['seq'] < fseq for e in log)):
            continue  # a publisher that was never subscribed before the loss has nobody to signal
        issue = next((e for e in log if e['ev'] == 'issue' and e.get('uid') == uid), None)
        if issue is None or issue['seq'] > fseq:
            continue
        evs = [e for e in log if e.get('uid') == uid]
        req_side = spec['side']
        resp_side = OTHER[req_side]
        facts = dict(uid=uid, k=k, fault=fkind)
        # (a scripted peer may have failed the interaction itself just before the connection ended: that error, decoded from
        # bytes that arrived before the cut, is the outcome then)
        peer_failed = any(e['ev'] == 'hand_end' and e.get('how') == 'error' and e.get('raw') and e['seq'] < fseq for e in evs)
        if req_side in affected:
            if k == 'rr':
                outcome = [e for e in evs if e['ev'] in ('rr_result', 'rr_error', 'rr_cancelled')]
                cancelled_by_app = any(e['ev'] == 'rr_cancel_call' for e in evs)
                if not outcome:
                    out.append(viol('request_left_hanging', '%s:hanging:rr' % pid, **facts))
                elif outcome[0]['seq'] > fseq and outcome[0]['ev'] == 'rr_result':
                    # a response can still be decoded from bytes that arrived before the cut; that is fine
                    pass
                elif outcome[0]['seq'] > fseq and outcome[0]['ev'] == 'rr_error' and not scripted_error(spec) and not peer_failed:
                    # "failed with a connection error": the application has to be able to tell it from a cancellation
                    # or an application error
                    if outcome[0].get('exc_type') == 'RSocketProtocolError' and 'CONNECTION_' not in outcome[0].get('exc', ''):
                        out.append(viol('pending_request_failed_with_wrong_error', '%s:wrong_error:rr' % pid,
                                        exc=outcome[0].get('exc', '')[:80], **facts))
            elif k in ('st', 'ch'):
                sub_evs = [e for e in evs if e['side'] == req_side and e.get('dir') == 'resp']
                term_before = any((e['ev'] in ('on_complete', 'on_error') or (e['ev'] == 'on_next' and e.get('complete'))
                                   or e['ev'] == 'sub_cancel') and e['seq'] < fseq for e in sub_evs)
                if not term_before and any(e['ev'] == 'on_subscribe' for e in sub_evs):
                    term_after = [e for e in sub_evs if e['seq'] > fseq and (e['ev'] in ('on_complete', 'on_error') or
                                                                             (e['ev'] == 'on_next' and e.get('complete')))]
                    cancelled_later = any(e['ev'] == 'sub_cancel' and e['seq'] > fseq for e in sub_evs)
                    if not term_after and not cancelled_later:
                        out.append(viol('subscriber_left_hanging', '%s:hanging:%s' % (pid, k), **facts))
                    elif len(term_after) > 1:
                        out.append(viol('subscriber_failed_twice', '%s:failed_twice:%s' % (pid, k), **facts))
                    elif term_after and term_after[0]['ev'] == 'on_error' and not scripted_error(spec) and not peer_failed and \
                            term_after[0].get('exc_type') == 'RSocketProtocolError' and 'CONNECTION_' not in term_after[0].get('exc', ''):
                        out.append(viol('pending_request_failed_with_wrong_error', '%s:wrong_error:%s' % (pid, k),
                                        exc=term_after[0].get('exc', '')[:80], **facts))
        if req_side in affected and k == 'ch' and spec.get('rsrc') is not None:
            # the requester of a channel produces too: its outbound publisher is cancelled like any other producer
            kind = spec['rsrc'].get('kind', 'manual')
            pe = [e for e in evs if e['side'] == req_side and e.get('dir') == 'req']
            finished = any(e['ev'] in ('hand_end', 'src_on_complete', 'gen_exhausted', 'pub_cancel', 'src_on_cancel')
                           and e['seq'] < fseq for e in pe) or \
                any(e['ev'] == 'hand' and e.get('complete') and e['seq'] < fseq for e in pe)
            if not finished:
                if kind == 'manual':
                    if any(e['ev'] == 'pub_subscribed' and e['seq'] < fseq for e in pe) and \
                            not any(e['ev'] == 'pub_cancel' and e['seq'] > fseq for e in pe) and \
                            not any((e['ev'] in ('hand_end', 'hand_fail') or (e['ev'] == 'hand' and e.get('complete')))
                                    and e['seq'] > fseq for e in pe):
                        out.append(viol('publisher_not_cancelled', '%s:not_cancelled:requester:manual' % pid, **facts))
                elif kind in ('gen', 'agen'):
                    if any(e['ev'] == 'gen_start' and e['seq'] < fseq for e in pe) and \
                            not any(e['ev'] == 'src_on_cancel' and e['seq'] > fseq for e in pe) and \
                            not any(e['ev'] in ('src_on_complete', 'gen_exhausted') and e['seq'] > fseq for e in pe):
                        out.append(viol('publisher_not_cancelled', '%s:not_cancelled:requester:%s' % (pid, kind), **facts))
        if resp_side in affected and k in ('rr', 'st', 'ch'):
            handled = next((e for e in evs if e['ev'] == 'handler' and e['side'] == resp_side), None)
            if handled is None or handled['seq'] > fseq:
                continue
            if k == 'rr':
                resolved = next((e for e in evs if e['ev'] in ('hand', 'hfut_fail') and e['side'] == resp_side), None)
                done = next((e for e in evs if e['ev'] == 'hfut_done'), None)
                mode = spec.get('resp', {}).get('mode', 'now')
                if mode != 'raise' and (resolved is None or resolved['seq'] > fseq) and st.get('hfut') is not None:
                    if done is None or not done['cancelled']:
                        if resolved is None:
                            out.append(viol('handler_future_not_cancelled', '%s:not_cancelled:future' % pid, **facts))
            else:
                src = spec.get('src')
                if src is None or spec.get('handler_raises'):
                    continue
                kind = src.get('kind', 'manual')
                pe = [e for e in evs if e['side'] == resp_side and e.get('dir') == 'resp']
                finished = any(e['ev'] in ('hand_end', 'src_on_complete', 'gen_exhausted', 'pub_cancel', 'src_on_cancel')
                               and e['seq'] < fseq for e in pe) or \
                    any(e['ev'] == 'hand' and e.get('complete') and e['seq'] < fseq for e in pe)
                if finished:
                    continue
                if kind == 'manual':
                    if any(e['ev'] == 'pub_subscribed' and e['seq'] < fseq for e in pe) and \
                            not any(e['ev'] == 'pub_cancel' and e['seq'] > fseq for e in pe) and \
                            not any((e['ev'] in ('hand_end', 'hand_fail') or (e['ev'] == 'hand' and e.get('complete')))
                                    and e['seq'] > fseq for e in pe):
                        out.append(viol('publisher_not_cancelled', '%s:not_cancelled:manual' % pid, **facts))
                elif kind in ('gen', 'agen'):
                    if not any(e['ev'] == 'src_on_cancel' and e['seq'] > fseq for e in pe) and \
                            not any(e['ev'] in ('src_on_complete',) and e['seq'] > fseq for e in pe):
                        out.append(viol('publisher_not_cancelled', '%s:not_cancelled:%s' % (pid, kind), **facts))
    # whatever the responder started (also for a request that arrived in the same read as the end of the connection):
    # once the endpoint has reported the close, the library's own producers must have stopped pulling the application
    for side in affected:
        closed = next((e for e in log if e['ev'] == 'on_close' and e['side'] == side), None)
        if closed is None:
            continue
        late = [e for e in log if e['ev'] == 'hand' and e['side'] == side and e['seq'] > closed['seq'] and
                e.get('run', 1) == 1 and not e.get('raw') and e.get('uid') in scn.st and
                ((scn.st[e['uid']]['spec'].get('src' if e.get('dir') == 'resp' else 'rsrc') or {}).get('kind') in ('gen', 'agen'))]
        if late:
            e = late[0]
            kind = (scn.st[e['uid']]['spec'].get('src' if e.get('dir') == 'resp' else 'rsrc') or {}).get('kind')
            out.append(viol('producer_pulled_after_close', '%s:produced_after_close:%s' % (pid, kind), side=side,
                            uid=e['uid'], dir=e.get('dir'), n=len(late), fault=fkind))
    # a request the application issues from its close notification (on_close runs while close() is still in progress, before
    # its last sweep) is registered by an endpoint that accepted it: close() must not return and leave it without an outcome
    for e0 in log:
        if e0['ev'] != 'issued_from_on_close':
            continue
        uid = e0['uid']
        st = scn.st.get(uid)
        if st is None or st.get('issue_raised') or not any(x['ev'] == 'close_returned' and x['side'] == e0['side'] for x in log):
            continue
        if not any(x['ev'] == 'close_call' and x['side'] == e0['side'] and x['seq'] < e0['seq'] for x in log):
            continue  # (the notification was caused by a loss, not by this endpoint's own close())
        evs = [x for x in log if x.get('uid') == uid]
        if st['spec']['k'] == 'rr' and not any(x['ev'] in ('rr_result', 'rr_error', 'rr_cancelled') for x in evs):
            out.append(viol('request_left_hanging', '%s:hanging_issued_during_close:rr' % pid, uid=uid, k='rr', fault=fkind,
                            issued='from on_close, while close() was in progress'))
    # requests issued after the loss (for example a retry from inside on_error) and before a later explicit close() of
    # that endpoint are pending at that close: it must fail them too
    for uid in scn.started:
        st = scn.st[uid]
        spec = st['spec']
        issue = next((e for e in log if e['ev'] == 'issue' and e.get('uid') == uid), None)
        if issue is None or issue['seq'] <= fseq or st.get('issue_raised') or spec['side'] not in real:
            continue
        # only requests issued before the close() call began: one issued from a callback while close() is sweeping is
        # not "pending at that moment" (and failing those too would turn a retrying application into an endless loop)
        later_close = next((e for e in log if e['ev'] == 'close_call' and e['side'] == spec['side'] and e['seq'] > issue['seq']), None)
        if later_close is None or not any(e['ev'] == 'close_returned' and e['side'] == spec['side'] for e in log):
            continue
        evs = [e for e in log if e.get('uid') == uid]
        if any(e['ev'] in ('sub_cancel', 'rr_cancel_call') and e['side'] == spec['side'] for e in evs):
            continue  # the application cancelled it itself: no terminal signal is owed
        if any(e['ev'] == 'subscribe_deferred' for e in evs) and not any(
                e['ev'] == 'subscribe_late' and e['seq'] < later_close['seq'] for e in evs):
            continue  # a cold publisher that was never subscribed has nobody to signal
        if spec['k'] == 'rr' and not any(e['ev'] in ('rr_result', 'rr_error', 'rr_cancelled') for e in evs):
            out.append(viol('request_left_hanging', '%s:hanging_after_close:rr' % pid, uid=uid, k='rr', fault=fkind,
                            issued='after the loss, before close()'))
        if spec['k'] in ('st', 'ch') and not any(e['ev'] in ('on_error', 'on_complete') and e['side'] == spec['side'] for e in evs):
            out.append(viol('subscriber_left_hanging', '%s:hanging_after_close:%s' % (pid, spec['k']), uid=uid, k=spec['k'],
                            fault=fkind, issued='after the loss, before close()'))
    for side in affected:
        # an endpoint that has been closed is not watched any more: no keepalive-timeout notification after close() returned
        returned = next((e['seq'] for e in log if e['ev'] == 'close_returned' and e['side'] == side), None)
        if returned is not None:
            late_to = [e for e in log if e['ev'] == 'on_keepalive_timeout' and e['side'] == side and e['seq'] > returned]
            if late_to:
                out.append(viol('keepalive_timeout_reported_after_close', '%s:timeout_after_close' % pid, side=side, n=len(late_to),
                                fault=fkind))
        closes = [e for e in log if e['ev'] == 'on_close' and e['side'] == side]
        if len(closes) != 1:
            out.append(viol('on_close_count', '%s:on_close:%s' % (pid, 'missing' if not closes else 'repeated'),
                            side=side, n=len(closes), fault=fkind))
        if mark is not None and mark > fseq:
            late = [e for e in tr.world.wire.get(side, []) if e['seq'] > mark]
            if late:
                out.append(viol('frame_sent_after_connection_end', '%s:send_after_end:%s' % (pid, late[0]['f']['type']),
                                side=side, n=len(late), types=sorted(set(x['f']['type'] for x in late)), fault=fkind))
        fin = tr.final.get(side, {})
        for key in ('sender_done', 'receiver_done', 'keepalive_done'):
            if key in fin and not fin[key]:
                out.append(viol('task_still_running', '%s:task_running:%s' % (pid, key), side=side, fault=fkind))
        # an endpoint that was closed explicitly keeps no task of its own alive, whichever attribute holds it
        if any(e['ev'] == 'close_returned' and e['side'] == side for e in log):
            for attr, val in sorted((fin.get('state') or {}).items()):
                if val == ['Task', 'pending']:
                    out.append(viol('task_still_running', '%s:task_running_after_close:%s' % (pid, attr), side=side, fault=fkind))
    return out
