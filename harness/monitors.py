"""Monitors: pure functions Trace -> [violation]. Each oracle is tied to a sentence of its property."""
from harness import app as A
from harness.common import viol

OTHER = {'c': 's', 's': 'c'}
MAXN = 0x7FFFFFFF


def events(tr, upto=None):
    return tr.world.log


def nonempty(d, m):
    return bool(d) or bool(m)


def _cmp_seq(expected, observed):
    """Classify the difference between two sequences of (data, metadata[, complete]) tuples."""
    if expected == observed:
        return None
    es, os_ = list(expected), list(observed)
    if len(os_) < len(es) and es[:len(os_)] == os_:
        return 'missing'
    if len(os_) > len(es) and os_[:len(es)] == es:
        return 'extra'
    if sorted(es) == sorted(os_):
        return 'reordered'
    # find first difference
    for i, (e, o) in enumerate(zip(es, os_)):
        if e != o:
            if o in es:
                return 'misplaced'
            tot_e = sum(len(x[0]) + len(x[1]) for x in es)
            tot_o = sum(len(x[0]) + len(x[1]) for x in os_)
            if tot_e == tot_o:
                return 'merged_or_split'
            return 'corrupted'
    return 'corrupted'


def _brief(seq, limit=6):
    return [[len(x[0]), len(x[1])] + list(x[2:]) for x in list(seq)[:limit]]


# ------------------------------------------------------------------------------------------------ C01

def mon_delivery(tr, pid='C01', require_complete=True, skip_uids=()):
    """Every non-empty payload handed to the library is observed at the peer's matching callback exactly once,
    intact, in order, on the right interaction. Judged at quiescence of a healed, fault-free run (then equality);
    otherwise only 'nothing foreign, nothing duplicated, order kept' (observed is a prefix of handed)."""
    out = []
    scn = tr.scn
    complete = require_complete and tr.quiet and not tr.faulted
    log = tr.world.log
    by_uid = {}
    mp_handled = {'c': [], 's': []}
    for e in log:
        if e['ev'] == 'handler' and e.get('k') == 'mp':
            mp_handled[e['side']].append((e['data'], e['metadata']))
        u = e.get('uid')
        if u is not None:
            by_uid.setdefault(u, []).append(e)
    mp_issued = {'c': [], 's': []}
    for uid in scn.started:
        if uid in skip_uids:
            continue
        st = scn.st[uid]
        spec = st['spec']
        k = spec['k']
        side = spec['side']
        peer = OTHER[side]
        evs = by_uid.get(uid, [])
        if st.get('issue_raised'):
            continue
        d, m = A.payload_bytes(uid, A.TAG_REQ, 0, spec.get('req', [1, 0]))
        if k == 'mp':
            if m:
                mp_issued[peer].append((b'', m))
            continue
        handled = [e for e in evs if e['ev'] == 'handler' and e['side'] == peer]
        if len(handled) > 1:
            out.append(viol('request_duplicated', pid + ':request_duplicated:' + k, uid=uid, k=k, n=len(handled)))
        elif len(handled) == 0:
            if complete and nonempty(d, m):
                out.append(viol('request_lost', pid + ':request_lost:' + k, uid=uid, k=k))
        else:
            h = handled[0]
            if (h['data'], h['metadata']) != (d, m) or h.get('k') != k:
                out.append(viol('request_corrupted', pid + ':request_corrupted:' + k, uid=uid, k=k,
                                sent=[len(d), len(m)], got=[len(h['data']), len(h['metadata'])], got_kind=h.get('k')))
        if k == 'rr':
            hands = [e for e in evs if e['ev'] == 'hand' and e['dir'] == 'resp']
            results = [e for e in evs if e['ev'] == 'rr_result']
            errors = [e for e in evs if e['ev'] in ('rr_error', 'rr_cancelled')]
            cancelled = any(e['ev'] == 'rr_cancel_call' for e in evs)
            if len(results) > 1:
                out.append(viol('response_duplicated', pid + ':response_duplicated', uid=uid))
            if results:
                r = results[0]
                if not hands or (hands[0]['data'], hands[0]['metadata']) != (r['data'], r['metadata']):
                    out.append(viol('response_corrupted', pid + ':response_corrupted', uid=uid,
                                    sent=_brief([(h['data'], h['metadata']) for h in hands]),
                                    got=[len(r['data']), len(r['metadata'])]))
            elif hands and complete and not cancelled and not errors:
                out.append(viol('response_lost', pid + ':response_lost', uid=uid))
            elif hands and errors and not cancelled and complete:
                out.append(viol('response_replaced_by_error', pid + ':response_replaced_by_error', uid=uid,
                                err=errors[0].get('exc')))
        if k in ('st', 'ch'):
            for dirn in ('resp', 'req'):
                hs = [(e['data'], e['metadata']) for e in evs if e['ev'] == 'hand' and e['dir'] == dirn
                      and nonempty(e['data'], e['metadata'])]
                os_ = [(e['data'], e['metadata']) for e in evs if e['ev'] == 'on_next' and e['dir'] == dirn
                       and nonempty(e['data'], e['metadata'])]
                sub = st['sub'].get(dirn)
                has_sub = sub is not None
                if not has_sub and not os_:
                    continue
                interrupted = any(e['ev'] in ('sub_cancel', 'on_error') and e['dir'] == dirn for e in evs) or \
                    any(e['ev'] == 'hand_end' and e.get('how') == 'error' for e in evs) or \
                    any(e['ev'] in ('pub_cancel', 'src_on_cancel') and e['dir'] == dirn for e in evs)
                if complete and not interrupted:
                    diff = _cmp_seq(hs, os_)
                else:
                    diff = None if hs[:len(os_)] == os_ else (_cmp_seq(hs[:len(os_)], os_) or 'corrupted')
                if diff:
                    out.append(viol('elements_' + diff, '%s:elements_%s:%s:%s' % (pid, diff, k, dirn), uid=uid,
                                    dir=dirn, handed=_brief(hs), observed=_brief(os_), n_handed=len(hs),
                                    n_observed=len(os_)))
    for side in ('c', 's'):
        exp, got = mp_issued[side], mp_handled[side]
        if complete:
            diff = _cmp_seq(exp, got)
        else:
            diff = None if exp[:len(got)] == got else 'corrupted'
        if diff:
            out.append(viol('metadata_push_' + diff, '%s:metadata_push_%s' % (pid, diff), side=side,
                            sent=_brief(exp), got=_brief(got)))
    return out


# ------------------------------------------------------------------------------------------------ C05

def reassemble(sends):
    """Independent reassembler over one endpoint's send log. Returns (per-sid logical frame lists, violations)."""
    per = {}
    open_train = {}
    out = []
    for e in sends:
        f = e['f']
        sid = f['sid']
        t = f['type']
        if sid in open_train:
            cur = open_train[sid]
            if t != 'PAYLOAD':
                out.append(viol('frame_inside_train', 'C05:frame_inside_train:' + t, sid=sid, seq=e['seq'],
                                train_type=cur['type'], intruder=t))
                # the train is broken; close it as is
                per.setdefault(sid, []).append(cur)
                del open_train[sid]
            else:
                cur['metadata'] += f['metadata']
                cur['data'] += f['data']
                cur['fragments'] += 1
                cur['md_after_data'] = cur.get('md_after_data') or (bool(f['metadata']) and cur['_seen_data'])
                cur['_seen_data'] = cur['_seen_data'] or bool(f['data'])
                if not f['follows']:
                    cur['complete'] = f['complete']
                    cur['next'] = cur['next'] or f['next']
                    cur['last_seq'] = e['seq']
                    per.setdefault(sid, []).append(cur)
                    del open_train[sid]
                continue
        if t in ('PAYLOAD', 'REQUEST_RESPONSE', 'REQUEST_FNF', 'REQUEST_STREAM', 'REQUEST_CHANNEL') and f['follows']:
            open_train[sid] = {'type': t, 'sid': sid, 'data': f['data'], 'metadata': f['metadata'], 'n': f.get('n'),
                               'complete': f['complete'], 'next': f['next'], 'fragments': 1, 'seq': e['seq'],
                               '_seen_data': bool(f['data'])}
            continue
        g = dict(f)
        g['fragments'] = 1
        g['seq'] = e['seq']
        g['last_seq'] = e['seq']
        per.setdefault(sid, []).append(g)
    return per, open_train, out


def expected_wire(tr, side):
    """Per stream id, the logical frames this endpoint's application caused, in hand-over order:
    returns sid -> {'pub': [...], 'ctl': [...], 'all': [...] or None} (all = total order, only when every source on
    this side of the stream is a manual publisher or a future)."""
    scn = tr.scn
    exp = {}
    for uid in scn.started:
        st = scn.st[uid]
        spec = st['spec']
        sid = st['sid']
        if sid in (None, 0) or st.get('issue_raised'):
            continue
        k = spec['k']
        req_side = spec['side']
        rec = {'pub': [], 'ctl': [], 'all': [], 'uid': uid, 'k': k, 'role': 'requester' if side == req_side else 'responder'}
        total_ok = True
        for e in tr.world.log:
            if e.get('uid') != uid or e['side'] != side:
                continue
            ev = e['ev']
            item = None
            cls = None
            if ev == 'issue':
                t = {'rr': 'REQUEST_RESPONSE', 'fnf': 'REQUEST_FNF', 'st': 'REQUEST_STREAM', 'ch': 'REQUEST_CHANNEL'}[k]
                item = {'type': t, 'data': e['data'], 'metadata': e['metadata']}
                cls = 'pub'
            elif ev == 'initial_n':
                # initial_n is logged after issue and before subscribe; attach to the request frame
                for it in rec['pub']:
                    if it['type'] in ('REQUEST_STREAM', 'REQUEST_CHANNEL'):
                        it['n'] = e['n']
                continue
            elif ev == 'hand':
                item = {'type': 'PAYLOAD', 'data': e['data'], 'metadata': e['metadata'], 'complete': e['complete'],
                        'next': True}
                cls = 'pub'
            elif ev == 'hand_end':
                if e['how'] == 'complete':
                    item = {'type': 'PAYLOAD', 'data': b'', 'metadata': b'', 'complete': True}
                else:
                    item = {'type': 'ERROR'}
                cls = 'pub'
            elif ev == 'gen_exhausted':
                src = spec.get('src') if e['dir'] == 'resp' else spec.get('rsrc')
                if src and src.get('end') != 'flag':
                    item = {'type': 'PAYLOAD', 'data': b'', 'metadata': b'', 'complete': True}
                    cls = 'pub'
            elif ev == 'sub_request':
                item = {'type': 'REQUEST_N', 'n': e['n']}
                cls = 'ctl'
            elif ev in ('sub_cancel', 'rr_cancel_call'):
                item = {'type': 'CANCEL'}
                cls = 'ctl'
            if item is None:
                continue
            item['app_seq'] = e['seq']
            rec[cls].append(item)
            rec['all'].append(item)
        for dirn, p in st['libpub'].items():
            if side_hosts_pub(st, dirn) == side:
                total_ok = False
        if not total_ok:
            rec['all'] = None
        exp[sid] = rec
    return exp


def side_hosts_pub(st, dirn):
    req_side = st['spec']['side']
    return OTHER[req_side] if dirn == 'resp' else req_side


def _frame_matches(item, fr):
    if item['type'] != fr['type']:
        return False
    t = item['type']
    if t == 'ERROR':
        return True
    if t == 'CANCEL':
        return True
    if t == 'REQUEST_N':
        return item['n'] == fr.get('n')
    if (item['data'], item['metadata']) != (fr['data'], fr['metadata']):
        return False
    if t == 'PAYLOAD':
        if bool(item.get('complete')) != bool(fr.get('complete')):
            return False
        if nonempty(item['data'], item['metadata']) and not fr.get('next'):
            return False
    if t in ('REQUEST_STREAM', 'REQUEST_CHANNEL') and 'n' in item and item['n'] != fr.get('n'):
        return False
    return True


def _brief_frames(frs, limit=8):
    out = []
    for f in list(frs)[:limit]:
        out.append({k: (len(v) if isinstance(v, (bytes, bytearray)) else v) for k, v in f.items()
                    if k in ('type', 'data', 'metadata', 'complete', 'n', 'next', 'fragments')})
    return out


def mon_wire_order(tr, pid='C05', sides=('c', 's')):
    """Per stream: fragment trains are contiguous, and the reassembled logical frames are exactly what the
    application handed over, in hand-over order (completion/error/cancel never overtake or split a payload)."""
    out = []
    complete = tr.quiet and not tr.faulted
    for side in sides:
        sends = tr.world.wire.get(side, [])
        per, open_train, vs = reassemble(sends)
        for v in vs:
            v['facts']['side'] = side
        out.extend(vs)
        if complete and open_train:
            for sid, cur in open_train.items():
                out.append(viol('train_never_finished', pid + ':train_never_finished', side=side, sid=sid,
                                fragments=cur['fragments']))
        exp = expected_wire(tr, side)
        for sid, rec in exp.items():
            frames = per.get(sid, [])
            # stop judging at the first terminal event of the stream caused by the peer (frames in flight after a
            # peer CANCEL/ERROR are not this endpoint's responsibility) -> handled by callers choosing programs
            pub_w = [f for f in frames if f['type'] in ('PAYLOAD', 'ERROR', 'REQUEST_RESPONSE', 'REQUEST_FNF',
                                                        'REQUEST_STREAM', 'REQUEST_CHANNEL')]
            ctl_w = [f for f in frames if f['type'] in ('REQUEST_N', 'CANCEL')]
            for name, want, got in (('pub', rec['pub'], pub_w), ('ctl', rec['ctl'], ctl_w)):
                n = min(len(want), len(got))
                bad = None
                for i in range(n):
                    if not _frame_matches(want[i], got[i]):
                        bad = i
                        break
                if bad is not None:
                    out.append(viol('wire_sequence_mismatch', '%s:wire_sequence_mismatch:%s' % (pid, name), side=side,
                                    sid=sid, uid=rec['uid'], role=rec['role'], k=rec['k'], index=bad,
                                    want=_brief_frames(want[bad:bad + 3]), got=_brief_frames(got[bad:bad + 3])))
                elif len(got) > len(want):
                    out.append(viol('wire_extra_frames', '%s:wire_extra_frames:%s' % (pid, name), side=side, sid=sid,
                                    uid=rec['uid'], role=rec['role'], k=rec['k'],
                                    extra=_brief_frames(got[len(want):])))
                elif complete and len(got) < len(want) and not tr_stream_interrupted(tr, rec['uid']):
                    out.append(viol('wire_missing_frames', '%s:wire_missing_frames:%s' % (pid, name), side=side,
                                    sid=sid, uid=rec['uid'], role=rec['role'], k=rec['k'],
                                    missing=_brief_frames(want[len(got):])))
            if rec['all'] is not None and not out:
                want = rec['all']
                got = frames
                n = min(len(want), len(got))
                for i in range(n):
                    if not _frame_matches(want[i], got[i]):
                        out.append(viol('wire_total_order_mismatch', pid + ':wire_total_order_mismatch', side=side,
                                        sid=sid, uid=rec['uid'], role=rec['role'], k=rec['k'], index=i,
                                        want=_brief_frames(want[i:i + 3]), got=_brief_frames(got[i:i + 3])))
                        break
    return out


def tr_stream_interrupted(tr, uid):
    """The stream was cut short by a cancel or an error from either side (frames queued after it may be dropped)."""
    for e in tr.world.log:
        if e.get('uid') == uid and e['ev'] in ('sub_cancel', 'rr_cancel_call', 'on_error', 'rr_error', 'pub_cancel',
                                               'src_on_cancel'):
            return True
        if e.get('uid') == uid and e['ev'] == 'hand_end' and e.get('how') == 'error':
            return True
    return False


# ------------------------------------------------------------------------------------------------ generic

def mon_no_loop_errors(tr, pid):
    out = []
    for err in tr.loop_errors:
        out.append(viol('unhandled_exception', '%s:unhandled_exception:%s' % (pid, err.get('type')), **err))
    return out
