"""Coverage-guided fuzz targets (atheris on libFuzzer), thorough tier only, semantic oracle inside the target.

    python -m harness.fuzz <target> [libFuzzer args]

Each target decodes the fuzzer's bytes into structured arguments, runs the property's oracle and raises
OracleFailure on a violation; libFuzzer then saves the input, which becomes the replay file.
A wall-clock cap means "inconclusive", never a violation.
"""
import os
import shutil
import struct
import subprocess
import sys
import tempfile
import time

from harness import common
from harness.common import viol

VERIF = common.VERIF


class OracleFailure(Exception):
    def __init__(self, violations):
        super().__init__(violations[0]['sig'])
        self.violations = violations


# ------------------------------------------------------------------------------------------------ targets

def _views(data):
    """Decode `data` with every backend: list of ('ok', view, bytes) / ('none',) / ('raise', type)."""
    from harness import frames, variants
    res = []
    for var in variants.all_variants():
        F = var.mod('rsocket.frame')
        try:
            fr = F.parse_or_ignore(data)
        except Exception as e:
            res.append(('raise', type(e).__name__))
            continue
        if fr is None:
            res.append(('none',))
            continue
        try:
            res.append(('ok', frames.from_repo(fr), fr.serialize()))
        except Exception as e:
            res.append(('reencode_raise', type(e).__name__))
    return res


def oracle_c02(data):
    """decode(x) on both backends agrees; b = encode(decode(x)) is a fixed point: encode(decode(b)) == b and
    decode(b) has the same fields; the reference codec decodes b to the same fields."""
    from harness import frames, refcodec
    out = []
    if len(data) >= 1 and data[0] & 0x80:
        # the reserved bit above the 31-bit stream id must be zero on the wire; bytes with it set encode no frame
        # value, so the statement (which quantifies over frame values) says nothing about them
        data = bytes([data[0] & 0x7F]) + data[1:]
    # How either backend treats arbitrary bytes is not claimed (the statement quantifies over frame values); the
    # fuzzer's bytes are only a way to reach frame values: whatever the decoder accepts is re-encoded, and the
    # property is demanded of that encoding.
    res = _views(data)
    if not res or res[0][0] != 'ok':
        return out
    _, view1, b = res[0]
    res2 = _views(b)
    if len(res2) == 2 and res2[0][:2] != res2[1][:2]:
        out.append(viol('backends_disagree_on_canonical_bytes', 'C02:fuzz:backends_disagree:' + view1['type'],
                        canonical=b[:64].hex()))
        return out
    for r in res2:
        if r[0] != 'ok':
            out.append(viol('canonical_bytes_not_decodable', 'C02:fuzz:canonical_not_decodable', input=data[:64].hex(),
                            canonical=b[:64].hex(), outcome=r[0]))
            return out
        if r[2] != b:
            out.append(viol('encode_decode_not_stable', 'C02:fuzz:not_stable:' + view1['type'], input=data[:64].hex(),
                            first=b[:64].hex(), second=r[2][:64].hex()))
            return out
    # the reference codec must read the canonical bytes the same way (header-level fields and payload)
    try:
        ref = frames.ref_view(refcodec.decode(b))
    except refcodec.RefDecodeError as e:
        out.append(viol('canonical_bytes_rejected_by_reference', 'C02:fuzz:reference_rejects:' + view1['type'],
                        canonical=b[:64].hex(), err=str(e)))
        return out
    v2 = res2[0][1]
    if v2 != ref:
        diff = sorted(k for k in set(v2) | set(ref) if v2.get(k) != ref.get(k))
        # SETUP/RESUME with signed mime length bytes or error codes outside the enum cannot come out of a
        # successful parse + serialize, so any difference is a codec disagreement
        out.append(viol('canonical_bytes_read_differently', 'C02:fuzz:reference_differs:%s:%s' % (view1['type'], ','.join(diff)),
                        canonical=b[:64].hex(), fields=diff))
    return out


def oracle_c04(data):
    """bytes -> (items, cuts) through a tiny data provider, then the C04 oracle."""
    from harness.checks import c04
    from harness import refcodec
    if len(data) < 4:
        return []
    n_items = 1 + data[0] % 6
    ncuts = data[1] % 10
    rbuf = [1, 2, 3, 5, 7, 64, 1024][data[2] % 7]
    pos = 3
    cuts_raw = []
    for _ in range(ncuts):
        if pos + 2 > len(data):
            break
        cuts_raw.append(struct.unpack_from('>H', data, pos)[0])
        pos += 2
    items = []
    for _ in range(n_items):
        if pos + 2 > len(data):
            break
        ln = struct.unpack_from('>H', data, pos)[0] % 300
        pos += 2
        body = bytes(data[pos:pos + ln])
        pos += ln
        items.append({'kind': 'junk' if len(body) >= 6 else 'short', 'body': body})
    if not items:
        return []
    # a fuzzer-made body may be a valid frame: it is then judged by its isolated decoding (kind 'junk' does that)
    total = sum(len(it['body']) + 3 for it in items)
    cuts = sorted(set(c % total for c in cuts_raw if total and 0 < c % total < total))
    case = {'items': items, 'cuts': cuts, 'rbuf': rbuf, 'transport': False}
    return c04.prop(case)


def oracle_c18(data):
    from harness.checks import c18
    return c18.fuzz_oracle(data)


def oracle_c12(data):
    from harness.checks import c12
    return c12.fuzz_oracle(data)


ORACLES = {'c02': oracle_c02, 'c04': oracle_c04, 'c18': oracle_c18, 'c12': oracle_c12}


def seed_corpus(target):
    """A few small valid inputs (the empty corpus is run as well)."""
    from harness import refcodec
    out = []
    if target in ('c02', 'c12'):
        out.append(refcodec.encode({'type': 'PAYLOAD', 'sid': 1, 'next': True, 'complete': True, 'data': b'abc', 'metadata': b'md'}))
        out.append(refcodec.encode({'type': 'SETUP', 'sid': 0, 'keepalive': 500, 'lifetime': 1000, 'metadata_mime': b'a/b',
                                    'data_mime': b'c/d', 'data': b'', 'metadata': None}))
        out.append(refcodec.encode({'type': 'REQUEST_STREAM', 'sid': 3, 'n': 5, 'data': b'x', 'metadata': None}))
        out.append(refcodec.encode({'type': 'KEEPALIVE', 'sid': 0, 'respond': True, 'position': 7, 'data': b'k'}))
        out.append(refcodec.encode({'type': 'ERROR', 'sid': 3, 'code': 0x201, 'data': b'boom'}))
        out.append(refcodec.encode({'type': 'LEASE', 'sid': 0, 'ttl': 1000, 'count': 3, 'metadata': None}))
        out.append(refcodec.encode({'type': 'RESUME', 'sid': 0, 'token': b'tok', 'last_server': 1, 'first_client': 2}))
    if target == 'c04':
        f = refcodec.encode({'type': 'CANCEL', 'sid': 3})
        out.append(bytes([1, 2, 0]) + struct.pack('>HH', 2, 7) + struct.pack('>H', len(f)) + f + struct.pack('>H', len(f)) + f)
    if target == 'c18':
        out.append(refcodec.enc_composite([(refcodec.MIME_ROUTING, refcodec.enc_tags([b'route'])), (b'x/y', b'content')]))
        out.append(refcodec.enc_composite([(refcodec.MIME_AUTH, refcodec.enc_auth_simple(b'u', b'p'))]))
    return out


def main(argv):
    target = argv[1]
    sys.path.insert(0, os.path.join(VERIF, '.deps'))
    import atheris
    common.use_repo()
    with atheris.instrument_imports(include=['rsocket']):
        from harness import variants
        variants.load()
    oracle = ORACLES[target]

    def one(data):
        vs = oracle(bytes(data))
        known = common.Known(target.upper())
        vs = [v for v in vs if not known.matches(v)]
        if vs:
            raise OracleFailure(vs)

    atheris.Setup([argv[0]] + argv[2:], one)
    atheris.Fuzz()


def run_atheris(stats, pid, target, seed, runs, max_seconds, with_seeds=True):
    """Run the fuzz target in subprocesses (empty corpus and seeded corpus), fold the outcome into stats."""
    if not os.path.isdir(os.path.join(VERIF, '.deps', 'atheris')):
        stats.notes.append('atheris not installed: fuzz stage skipped (inconclusive)')
        stats.extra['fuzz'] = {'skipped': 'atheris not installed'}
        return
    work = tempfile.mkdtemp(prefix='fuzz-%s-' % target, dir=os.environ.get('VERIF_SCRATCH', None))
    summary = []
    known = common.Known(pid)
    try:
        configs = [('empty', False)] + ([('seeded', True)] if with_seeds else [])
        procs = []
        for name, seeded in configs:
            corpus = os.path.join(work, name)
            art = os.path.join(work, name + '-artifacts')
            os.makedirs(corpus)
            os.makedirs(art)
            if seeded:
                common.use_repo()
                for i, b in enumerate(seed_corpus(target)):
                    with open(os.path.join(corpus, 'seed%d' % i), 'wb') as f:
                        f.write(b)
            cmd = [sys.executable, '-m', 'harness.fuzz', target, corpus, '-runs=%d' % (runs // len(configs)),
                   '-seed=%d' % (seed if seed else 1), '-max_total_time=%d' % max_seconds, '-artifact_prefix=' + art + '/',
                   '-max_len=4096', '-print_final_stats=1', '-verbosity=0']
            env = dict(os.environ, PYTHONHASHSEED='0')
            p = subprocess.Popen(cmd, cwd=VERIF, stdout=subprocess.PIPE, stderr=subprocess.STDOUT, env=env)
            procs.append((name, art, p, time.time()))
        for name, art, p, t0 in procs:
            try:
                outp, _ = p.communicate(timeout=max_seconds + 120)
            except subprocess.TimeoutExpired:
                p.kill()
                outp, _ = p.communicate()
            text = outp.decode('utf-8', 'replace')
            execs = 0
            for line in text.splitlines():
                if 'stat::number_of_executed_units' in line:
                    execs = int(line.split(':')[-1].strip())
            crashes = sorted(os.listdir(art))
            summary.append({'corpus': name, 'executions': execs, 'exit': p.returncode, 'crash_files': len(crashes),
                            'wall_s': round(time.time() - t0, 1)})
            stats.evaluations += execs
            for c in crashes:
                data = open(os.path.join(art, c), 'rb').read()
                common.use_repo()
                vs = ORACLES[target](data)
                new = common.judge(stats, known, {'fuzz_input': data}, vs)
                for v in new[:1]:
                    stats.violations.append((v, {'fuzz_target': target, 'fuzz_input': data}))
                if not vs:
                    stats.notes.append('fuzz artifact %s did not reproduce in-process (not counted)' % c)
            if p.returncode not in (0,) and not crashes:
                tail = ' | '.join(text.strip().splitlines()[-4:])
                if 'OracleFailure' in text or 'Traceback' in text:
                    raise common.HarnessError('fuzz target %s failed without artifact: %s' % (target, tail[:800]))
                stats.notes.append('fuzz %s/%s exit %s: %s' % (target, name, p.returncode, tail[:200]))
        stats.extra['fuzz'] = summary
        if sum(s['executions'] for s in summary) > 0:
            stats.case({'fuzz_target': target, 'summary': summary}, True, ['fuzz'], key='fuzz-' + target)
    finally:
        shutil.rmtree(work, ignore_errors=True)


if __name__ == '__main__':
    main(sys.argv)
