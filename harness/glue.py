"""The repository's own websocket transports (aiohttp client / server, websockets, asyncwebsockets, quart, Django channels)
driven without a network: each is given a stand-in for the websocket object it reads from and writes to. Only the glue
is real (its read loop, its use of FrameParser and of the incoming queue, its send path); the websocket libraries
themselves are not involved beyond their message types.

feed(glue, messages)      -> what an endpoint's receiver gets from next_frame_generator() after the glue's read loop saw
                             exactly these messages (a list of frame objects / ('raised', name) markers)
emit(glue, frame_objects) -> the binary messages the glue hands to the websocket for these frames, in order
"""
import asyncio

GLUES = ('aiohttp_client', 'aiohttp_server', 'websockets', 'asyncwebsockets', 'quart', 'channels', 'http3')


class Endless(Exception):
    pass


class BoundedParser:
    """The transport's FrameParser behind a counter: no chunk of n bytes holds more than n frames, so a decoder that keeps
    producing is stuck in a loop (the transport's read loop would otherwise fill the memory with queued frames)."""

    def __init__(self, inner):
        self._inner = inner

    def __getattr__(self, name):
        return getattr(self._inner, name)

    async def receive_data(self, data, header_length=3):
        from harness.common import CaseTimeout
        n = 0
        async for frame in self._inner.receive_data(data, header_length):
            n += 1
            if n > len(data) + 16:
                raise CaseTimeout('decoder produced %d frames from %d bytes' % (n, len(data)))
            yield frame


def bound(transport):
    if hasattr(transport, '_frame_parser') and not isinstance(transport._frame_parser, BoundedParser):
        transport._frame_parser = BoundedParser(transport._frame_parser)
    return transport


class FakeWS:
    """async-iterable source of incoming messages + sink for outgoing ones (aiohttp / websockets / asyncwebsockets)"""

    def __init__(self, incoming=()):
        self.incoming = list(incoming)
        self.sent = []
        self.closed = False

    def __aiter__(self):
        return self

    async def __anext__(self):
        await asyncio.sleep(0)
        if not self.incoming:
            raise StopAsyncIteration
        return self.incoming.pop(0)

    async def send_bytes(self, data):  # aiohttp
        self.sent.append(bytes(data))

    async def send(self, data=None, **kw):  # websockets / asyncwebsockets / quart / channels
        if data is None:
            data = kw.get('bytes_data')
        self.sent.append(bytes(data))

    async def receive(self):  # quart
        await asyncio.sleep(0)
        if not self.incoming:
            raise asyncio.CancelledError()
        return self.incoming.pop(0)

    async def receive_bytes(self):  # http3
        from starlette.websockets import WebSocketDisconnect
        await asyncio.sleep(0)
        if not self.incoming:
            raise WebSocketDisconnect()
        return self.incoming.pop(0)

    async def close(self):
        self.closed = True


def _wrap_incoming(glue, messages, noise):
    """the message objects the library behind this glue would deliver; `noise` adds a non-binary message after each one"""
    out = []
    if glue in ('aiohttp_client', 'aiohttp_server'):
        import aiohttp
        for m in messages:
            out.append(aiohttp.WSMessage(aiohttp.WSMsgType.BINARY, bytes(m), None))
            if noise:
                out.append(aiohttp.WSMessage(aiohttp.WSMsgType.TEXT, 'not a frame', None))
                out.append(aiohttp.WSMessage(aiohttp.WSMsgType.PONG, b'', None))
    elif glue == 'asyncwebsockets':
        from wsproto.events import BytesMessage, TextMessage
        for m in messages:
            out.append(BytesMessage(data=bytes(m)))
            if noise:
                out.append(TextMessage(data='not a frame'))
    else:
        out = [bytes(m) for m in messages]
    return out


async def _make(glue, ws):
    """-> (transport, coroutine that runs the read loop to the end of the incoming messages)"""
    if glue == 'aiohttp_client':
        from rsocket.transports.aiohttp_websocket import TransportAioHttpClient
        t = TransportAioHttpClient(websocket=ws)
        await t.connect()

        async def run():
            await t._message_handler
        return t, run
    if glue == 'aiohttp_server':
        from rsocket.transports.aiohttp_websocket import TransportAioHttpWebsocket
        t = TransportAioHttpWebsocket(ws)
        return t, t.handle_incoming_ws_messages
    if glue == 'websockets':
        from rsocket.transports.websockets_transport import WebsocketsTransport
        t = WebsocketsTransport()

        async def run():
            await t.consumer_handler(ws)
        return t, run
    if glue == 'asyncwebsockets':
        from rsocket.transports.asyncwebsockets_transport import TransportAsyncWebsocketsClient
        t = TransportAsyncWebsocketsClient(ws)
        await t.connect()

        async def run():
            await t._message_handler
        return t, run
    if glue == 'quart':
        import rsocket.transports.quart_websocket as qw
        qw.websocket = ws  # the module reads quart's context-local proxy through this name
        t = qw.TransportQuartWebsocket()
        return t, t.handle_incoming_ws_messages
    if glue == 'http3':
        from rsocket.transports.http3_transport import Http3TransportWebsocket
        t = Http3TransportWebsocket(ws)

        async def run():
            await t._listener
        return t, run
    if glue == 'channels':
        from rsocket.transports.channels_transport import AsyncRSocketConsumer, ChannelsTransport
        consumer = AsyncRSocketConsumer()
        consumer.send = ws.send  # what AsyncWebsocketConsumer.send would pass on to the channel layer
        t = ChannelsTransport(consumer)
        consumer.transport = t

        async def run():
            while ws.incoming:
                await consumer.receive(bytes_data=ws.incoming.pop(0))
                await asyncio.sleep(0)
        return t, run
    raise ValueError(glue)


async def feed(loop, glue, messages, noise=False, cap=None):
    ws = FakeWS(_wrap_incoming(glue, messages, noise))
    t, run = await _make(glue, ws)
    bound(t)
    cap = cap if cap is not None else len(messages) + 4
    await run()
    out = []
    while not t._incoming_frame_queue.empty():
        try:
            gen = await t.next_frame_generator()
        except Exception as e:
            out.append(('raised', type(e).__name__))
            continue
        async for fr in gen:
            out.append(fr)
            if len(out) > cap:
                raise Endless()
    if glue == 'channels':
        await t.close()
    return out


async def emit(loop, glue, frame_objects):
    ws = FakeWS()
    t, _run = await _make(glue, ws)
    if glue == 'websockets':
        producer = asyncio.ensure_future(t.producer_handler(ws))
    for fr in frame_objects:
        await t.send_frame(fr)
    for _ in range(4 + 2 * len(frame_objects)):
        await asyncio.sleep(0)
    if glue == 'websockets':
        producer.cancel()
    if glue in ('channels', 'aiohttp_client', 'asyncwebsockets', 'http3'):
        try:
            await t.close()
        except Exception:
            pass
    return list(ws.sent)


async def feed_quic(loop, chunks, cap):
    """Byte framing over the repository's QUIC transport: the chunks arrive as StreamDataReceived events at a real
    RSocketQuicProtocol (its QuicConnection is a stand-in), a real RSocketQuicTransport turns them into frames."""
    from aioquic.quic.events import StreamDataReceived
    from harness.glue_e2e import quic_pair
    from rsocket.transports.aioquic_transport import RSocketQuicTransport
    _pa, pb = quic_pair()
    t = bound(RSocketQuicTransport(pb))
    for ch in chunks:
        if ch:
            pb.quic_event_received(StreamDataReceived(data=bytes(ch), end_stream=False, stream_id=0))
        await asyncio.sleep(0)
    for _ in range(6):
        await asyncio.sleep(0)
    out = []
    while not t._incoming_frame_queue.empty():
        try:
            gen = await t.next_frame_generator()
        except Exception as e:
            out.append(('raised', type(e).__name__))
            continue
        async for fr in gen:
            out.append(fr)
            if len(out) > cap:
                raise Endless()
    await t.close()
    return out
