"""Hypothesis strategies for SimNet programs (construction, not rejection: every drawn list is executable)."""
from hypothesis import strategies as st

MAXN = 0x7FFFFFFF

FRAG_SIZES = [None, 64, 64, 65, 66, 73, 80, 96, 128, 256, 1024]


def frag_pair(allow_none=True):
    sizes = FRAG_SIZES if allow_none else [f for f in FRAG_SIZES if f is not None]
    return st.tuples(st.sampled_from(sizes), st.sampled_from(sizes)).map(list)


def length(frag, max_frags=6, big=False):
    """A payload part length biased to fragment boundaries of the given fragment size."""
    body = (frag or 128) - 9
    choices = [
        st.sampled_from([0, 0, 1, 2, 3, 4, 5]),
        st.builds(lambda k, d: max(0, k * body + d), st.integers(1, max_frags), st.sampled_from([-3, -1, 0, 1, 3, 6])),
        st.integers(0, max_frags * body),
    ]
    if big:
        choices.append(st.sampled_from([4096, 65535, 65536, 70000]))
    return st.one_of(*choices)


def lens(frag, max_frags=6, big=False):
    """[dlen, mlen]"""
    return st.one_of(
        st.tuples(length(frag, max_frags, big), st.just(0)),
        st.tuples(length(frag, max_frags, big), length(frag, 2)),
        st.tuples(st.just(0), length(frag, max_frags)),
    ).map(list)


def nonempty_lens(frag, max_frags=6, big=False):
    return lens(frag, max_frags, big).map(lambda l: l if (l[0] or l[1]) else [1, 0])


def rbufs():
    return st.tuples(st.sampled_from([1, 2, 3, 7, 64, 1024, 65536]), st.sampled_from([1, 2, 3, 7, 64, 1024, 65536])).map(list)


def manual_src(frag, max_els=5, ends=('flag', 'sep', 'error'), max_frags=6):
    return st.fixed_dictionaries({
        'kind': st.just('manual'),
        'els': st.lists(lens(frag, max_frags), min_size=0, max_size=max_els),
        'end': st.sampled_from(list(ends)),
    })


def lib_src(frag, max_els=8, kinds=('gen', 'agen'), ends=('flag', 'sep'), max_frags=3):
    return st.fixed_dictionaries({
        'kind': st.sampled_from(list(kinds)),
        'els': st.lists(nonempty_lens(frag, max_frags), min_size=0, max_size=max_els),
        'end': st.sampled_from(list(ends)),
        'awaits': st.integers(0, 3),
        # paced publisher (delay_between_messages, virtual milliseconds): the puller runs ahead of the feeder
        'pace': st.sampled_from([0, 0, 0, 0, 5, 30]),
    })


def sub_spec(full_credit=True):
    if full_credit:
        return st.fixed_dictionaries({'n0': st.sampled_from([MAXN, MAXN, 1, 2, 3, 5]), 'refill': st.sampled_from([0, 1, 2, 3])})
    return st.fixed_dictionaries({'n0': st.sampled_from([1, 2, 3, 5, MAXN]), 'refill': st.sampled_from([0, 0, 1, 2, 3])})
