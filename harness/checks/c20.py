"""C20 Rx / ReactiveX adapters are transparent (Engine B, differential against the core API through a common oracle)."""
import time

from hypothesis import strategies as st

from harness import app as A
from harness import common, gen
from harness.common import viol
from harness.programs import run_program

PID = 'C20'
LEVEL = 'exploration'
RULE = ('The same generated scenario is executed three ways - core API (StreamFromGenerator / recording subscriber), '
        'Rx 3 (RxRSocket, rx_handler_factory) and ReactiveX 4 (ReactiveXClient, reactivex_handler_factory): element '
        'counts 0..15, request limit 1..5 and 2^31-1, error at position k or none, dispose after j elements or never, '
        'request-response / stream / channel (both directions, requester observable plain or back-pressure factory), '
        'handler observables plain and back-pressure factory, read buffers and delivery regime generated; '
        'fire-and-forget, metadata-push and setup through the handler adapters with a recording delegate. Oracle (the '
        'scenario is the reference; all three executions must match it): observers on both sides see the same elements '
        'in the same order with the same terminal event; on the wire the initial request-n and every REQUEST_N equal '
        'the request limit and credit is only renewed after limit elements arrived; the handler\'s observable reaches '
        'the wire within the credit received; a back-pressure factory\'s feedback subject received exactly the credited '
        'amounts in order; dispose sends one CANCEL and cancels the peer\'s source; the delegate\'s '
        'request_fire_and_forget / on_metadata_push / on_setup were invoked with the sent values, and a delegate that '
        'raises from on_setup gets the connection refused with ERROR[REJECTED_SETUP] as a core handler does. Plus long sources: a '
        'back-pressure-aware handler observable of 1500 elements with credit 700..2^31-1 whose result is disposed after 1-6 '
        'elements or 2-8 ticks under prompt delivery must not be drained to its end (the CANCEL has to get a chance to '
        'stop it). Plus: a fire-and-forget whose delegate suspends 0-4 loop iterations, followed by a request-response (same '
        'read or the next tick): the delegate sees them in the order a core handler does. Plus: one handler factory object '
        'serving 2-3 consecutive connections of a client (as a listening application does): every connection gets a '
        'delegate of its own, which sees that connection\'s on_setup once and its fire-and-forget / metadata-push / '
        'request-response calls, as with a core handler factory. Non-trivial = >= 3 '
        'elements with request limit < element count, or an error / dispose position strictly inside the sequence; '
        'distinct = scenario hash.')
ASSUMPTIONS = ['Rx 3 (rx) and ReactiveX 4 (reactivex) are importable in /venv', 'a plain observable may be buffered by the adapter']

MAXN = 0x7FFFFFFF


@st.composite
def scenarios(draw):
    model = draw(st.sampled_from(['st', 'st', 'st', 'ch', 'ch', 'rr', 'fnf', 'mp', 'setup']))
    n = draw(st.one_of(st.sampled_from([0, 1, 2, 3]), st.integers(0, 15)))
    sc = {'model': model, 'n': n, 'limit': draw(st.sampled_from([1, 2, 3, 5, MAXN, MAXN])),
          'err_at': draw(st.one_of(st.none(), st.none(), st.integers(0, max(0, n)))),
          'dispose_after': draw(st.one_of(st.none(), st.none(), st.integers(1, max(1, n)))),
          # dispose by the application at a moment of its own: immediately after subscribe (0) or k ticks later
          'dispose_ticks': draw(st.one_of(st.none(), st.none(), st.none(), st.sampled_from([0, 0, 1, 2, 3, 5]))),
          'bp': draw(st.booleans()), 'msg': draw(st.booleans()), 'rbuf': draw(st.sampled_from([1, 7, 1024])),
          'frag': draw(st.sampled_from([None, None, 64])), 'lens': draw(st.sampled_from([[5, 0], [0, 4], [70, 3]])),
          # core-API sources end with the complete flag on the last element (NEXT|COMPLETE) or with a separate completion
          'flag_end': draw(st.booleans())}
    if model == 'ch':
        sc['m'] = draw(st.integers(0, 8))
        sc['rbp'] = draw(st.booleans())
        sc['rerr_at'] = draw(st.one_of(st.none(), st.none(), st.integers(0, max(0, sc['m']))))
        sc['resp_limit'] = draw(st.sampled_from([1, 2, MAXN]))
    if model in ('fnf', 'mp'):
        # the application does not look at the result of a one-way request (no subscribe): it is sent all the same, as with
        # the core API, where the frame goes out when the call is made
        sc['drop_result'] = draw(st.booleans())
    if model == 'setup':
        # the delegate may refuse the connection by raising from on_setup (authentication): the peer has to be told
        sc['reject'] = draw(st.booleans())
    if model == 'rr':
        sc['n'] = draw(st.sampled_from([0, 1]))
        sc['err_at'] = draw(st.sampled_from([None, None, 0]))
        sc['dispose_after'] = None
    if sc['err_at'] is not None and sc['dispose_after'] is not None and sc['dispose_after'] > sc['err_at']:
        sc['dispose_after'] = None
    if sc['dispose_after'] is not None and sc['dispose_after'] > sc['n']:
        sc['dispose_after'] = None
    if sc['flag_end']:
        # a core source that flags its last element complete cannot also fail after it, and a dispose on that element
        # coincides with the terminal signal: keep the scenario unambiguous for every execution
        if sc['err_at'] is not None and sc['err_at'] >= sc['n']:
            sc['err_at'] = None
        if model == 'ch' and sc.get('rerr_at') is not None and sc['rerr_at'] >= sc['m']:
            sc['rerr_at'] = None
        if sc['dispose_after'] is not None and sc['dispose_after'] >= sc['n']:
            sc['dispose_after'] = None
    if sc['dispose_ticks'] is not None:
        sc['dispose_after'] = None
        if model not in ('st', 'ch'):
            sc['dispose_ticks'] = None
    if model in ('st', 'ch') and sc['limit'] < MAXN and sc['dispose_after'] is None and sc['dispose_ticks'] is None \
            and draw(st.integers(0, 2)) == 0:
        # a core-API requester that tops its credit up in steps (two or three request(n) calls in a row, no automatic
        # refill): together with the initial request-n the credit covers the whole sequence
        steps = draw(st.lists(st.integers(1, 6), min_size=2, max_size=3))
        steps[-1] += max(0, sc['n'] + 1 - sc['limit'] - sum(steps))
        sc['topup'] = steps
    return sc


def el(uid, tag, i, lens):
    return A.payload_bytes(uid, tag, i, lens)


def expected_seq(n, err_at, tag, lens):
    seq = [('next',) + el(0, tag, i, lens) for i in range(n)]
    if err_at is not None and err_at <= n:
        return seq[:err_at] + [('error',)]
    return seq + [('completed',)]


# ------------------------------------------------------------------------------------------------ rx plumbing

def rxmods(version):
    if version == 4:
        import reactivex as rx
        from reactivex import operators as ops
        from reactivex.disposable import Disposable
        from rsocket.reactivex import back_pressure_publisher as bp
        from rsocket.reactivex.reactivex_client import ReactiveXClient as Client
        from rsocket.reactivex.reactivex_handler_adapter import reactivex_handler_factory as hf
        from rsocket.reactivex.reactivex_handler import BaseReactivexHandler as Base
        from rsocket.reactivex.reactivex_channel import ReactivexChannel as Channel
    else:
        import rx
        from rx import operators as ops
        from rx.disposable import Disposable
        from rsocket.rx_support import back_pressure_publisher as bp
        from rsocket.rx_support.rx_rsocket import RxRSocket as Client
        from rsocket.rx_support.rx_handler_adapter import rx_handler_factory as hf
        from rsocket.rx_support.rx_handler import BaseRxHandler as Base
        from rsocket.rx_support.rx_channel import RxChannel as Channel
    return dict(rx=rx, ops=ops, Disposable=Disposable, bp=bp, Client=Client, hf=hf, Base=Base, Channel=Channel)


def observable(M, world, side, name, n, err_at, tag, lens, backpressure):
    """The application's observable (plain or back-pressure factory) emitting the scenario's elements; records hand-over."""
    P = A.lib()['Payload']

    def ev(kind, **kw):
        return world.ev(side, kind, src=name, **kw)

    if not backpressure:
        def on_subscribe(observer, scheduler=None):
            ev('obs_subscribed')
            for i in range(n):
                if err_at is not None and i == err_at:
                    observer.on_error(A.AppError('scenario error'))
                    return M['Disposable'](lambda: ev('obs_disposed'))
                d, m = el(0, tag, i, lens)
                observer.on_next(P(d, m))
            if err_at is not None and err_at >= n:
                observer.on_error(A.AppError('scenario error'))
            else:
                observer.on_completed()
            return M['Disposable'](lambda: ev('obs_disposed'))

        return M['rx'].create(on_subscribe)

    async def agen():
        ev('gen_start')
        try:
            for i in range(n):
                if err_at is not None and i == err_at:
                    raise A.AppError('scenario error')
                d, m = el(0, tag, i, lens)
                ev('yield', idx=i)
                yield P(d, m)
            if err_at is not None and err_at >= n:
                raise A.AppError('scenario error')
        finally:
            ev('gen_finally')

    def factory(feedback):
        feedback.subscribe(on_next=lambda k: ev('feedback', n=k), on_completed=lambda: ev('feedback_completed'))
        return M['bp'].observable_from_async_generator(agen(), feedback)

    return M['bp'].from_observable_with_backpressure(factory)


class Recorder:
    """observer callbacks that log and optionally dispose after j elements"""

    def __init__(self, world, side, name, dispose_after=None):
        self.world, self.side, self.name = world, side, name
        self.dispose_after = dispose_after
        self.count = 0
        self.disposable = None
        self.disposed = False

    def on_next(self, value):
        d, m = A.pl(value)
        self.world.ev(self.side, 'obs', who=self.name, what='next', data=d, metadata=m)
        self.count += 1
        if self.dispose_after is not None and self.count == self.dispose_after and not self.disposed:
            self.dispose()

    def dispose(self):
        self.disposed = True
        self.world.ev(self.side, 'obs', who=self.name, what='dispose')
        if self.disposable is not None:
            self.disposable.dispose()
        else:
            self.pending_dispose = True

    def on_error(self, e):
        self.world.ev(self.side, 'obs', who=self.name, what='error', exc=repr(e))

    def on_completed(self):
        self.world.ev(self.side, 'obs', who=self.name, what='completed')


def rx_observer(M, rec):
    try:
        from reactivex import Observer as O4
    except Exception:
        O4 = None
    if M['rx'].__name__ == 'reactivex':
        return O4(rec.on_next, rec.on_error, rec.on_completed)
    from rx.core import Observer as O3
    return O3(rec.on_next, rec.on_error, rec.on_completed)


def build_rx(sc, version):
    M = rxmods(version)
    model = sc['model']
    lens = sc['lens']

    def server_factory(scn):
        world = scn.world
        Base = M['Base']

        instances = []

        class Delegate(Base):
            def __init__(self, *a, **k):
                super().__init__(*a, **k)
                self.inst = len(instances)  # which delegate object this is, in order of creation
                instances.append(self)
                world.ev('s', 'delegate_created', inst=self.inst)

            async def on_setup(self, data_encoding, metadata_encoding, payload):
                d, m = A.pl(payload)
                world.ev('s', 'delegate', what='on_setup', data_encoding=bytes(data_encoding),
                         metadata_encoding=bytes(metadata_encoding), data=d, metadata=m, inst=self.inst)
                if sc.get('reject'):
                    raise A.AppError('setup refused by the delegate')

            async def on_metadata_push(self, metadata):
                d, m = A.pl(metadata)
                world.ev('s', 'delegate', what='on_metadata_push', data=d, metadata=m, inst=self.inst)

            async def request_fire_and_forget(self, payload):
                d, m = A.pl(payload)
                world.ev('s', 'delegate', what='request_fire_and_forget', data=d, metadata=m, inst=self.inst)

            async def request_response(self, payload):
                d, m = A.pl(payload)
                world.ev('s', 'delegate', what='request_response', data=d, metadata=m, inst=self.inst)
                return observable(M, world, 's', 'resp', sc['n'], sc['err_at'], A.TAG_RESP, lens, False)

            async def request_stream(self, payload):
                d, m = A.pl(payload)
                world.ev('s', 'delegate', what='request_stream', data=d, metadata=m, inst=self.inst)
                return observable(M, world, 's', 'resp', sc['n'], sc['err_at'], A.TAG_RESP, lens, sc['bp'])

            async def request_channel(self, payload):
                d, m = A.pl(payload)
                world.ev('s', 'delegate', what='request_channel', data=d, metadata=m, inst=self.inst)
                rec = Recorder(world, 's', 'responder_in')
                return M['Channel'](observable(M, world, 's', 'resp', sc['n'], sc['err_at'], A.TAG_RESP, lens, sc['bp']),
                                    rx_observer(M, rec), sc.get('resp_limit', MAXN))

        return M['hf'](Delegate)

    def go(scn):
        world = scn.world
        client = M['Client'](scn.sock['c'])
        P = A.lib()['Payload']
        d, m = el(0, A.TAG_REQ, 0, [6, 2])
        world.ev('c', 'rx_request', model=model)
        rec = Recorder(world, 'c', 'requester', sc['dispose_after'])
        scn.rec = rec
        if model == 'st':
            obs = client.request_stream(P(d, m), request_limit=sc['limit'])
        elif model == 'ch':
            robs = observable(M, world, 'c', 'req', sc['m'], sc.get('rerr_at'), A.TAG_REQEL, lens, sc.get('rbp', False))
            obs = client.request_channel(P(d, m), request_limit=sc['limit'], observable=robs)
        elif model == 'rr':
            obs = client.request_response(P(d, m))
        elif model == 'fnf':
            obs = client.fire_and_forget(P(d, m))
        elif model == 'mp':
            obs = client.metadata_push(m or b'mp')
        else:
            return
        if sc.get('drop_result') and model in ('fnf', 'mp'):
            world.ev('c', 'rx_result_dropped', model=model)
            return
        rec.disposable = obs.subscribe(rx_observer(M, rec))
        if getattr(rec, 'pending_dispose', False):
            rec.disposable.dispose()
        if sc.get('dispose_ticks') == 0:
            rec.dispose()

    def dispose_now(scn):
        rec = getattr(scn, 'rec', None)
        if rec is not None and not rec.disposed:
            rec.dispose()

    return server_factory, go, dispose_now


def build_core(sc):
    """the same scenario through the core API, expressed as an ordinary SimNet program"""
    model = sc['model']
    lens = sc['lens']
    n = sc['n']
    spec = {'k': model if model not in ('setup',) else 'rr', 'side': 'c', 'req': [6, 2]}
    if model in ('st', 'ch'):
        els = [lens] * n
        spec['src'] = {'kind': 'gen' if not sc['bp'] else 'agen', 'els': els, 'end': 'flag' if sc.get('flag_end') else 'sep',
                       'err_at': sc['err_at']}
        spec['sub'] = {'n0': sc['limit'], 'refill': sc['limit'] if sc['limit'] < MAXN else 0, 'cancel_at': sc['dispose_after']}
        if sc.get('topup'):
            spec['sub']['refill'] = 0
    if model == 'ch':
        spec['rsrc'] = {'kind': 'gen' if not sc.get('rbp') else 'agen', 'els': [lens] * sc['m'],
                        'end': 'flag' if sc.get('flag_end') else 'sep', 'err_at': sc.get('rerr_at')}
        spec['rsub'] = {'n0': min(sc.get('resp_limit', MAXN), MAXN), 'refill': sc['resp_limit'] if sc.get('resp_limit', MAXN) < MAXN else 0}
    if model == 'rr':
        spec['resp'] = {'mode': 'fail' if sc['err_at'] == 0 else 'now', 'p': lens if n else [0, 0]}
    if model == 'mp':
        spec['req'] = [0, 2]
    return spec


def kinds(variant):
    """variant 'core' | 'rx3' | 'rx4' (same on both sides) or 'client/handler'"""
    if '/' in variant:
        c, h = variant.split('/')
        return c, h
    return variant, variant


def run_variant(sc, variant):
    ck, hk = kinds(variant)
    cfg = {'msg': sc['msg'], 'frag': [sc['frag'], sc['frag']], 'rbuf': [sc['rbuf'], sc['rbuf']],
           'setup_payload': list(el(0, A.TAG_REQ, 9, [4, 3])), 'data_encoding': b'application/x-c20',
           'metadata_encoding': b'message/x.c20'}
    if sc.get('reject') and hk == 'core':
        cfg['setup_raises'] = 'app'
    ops_tail = [['tick', 6], ['settle'], ['adv', 60], ['settle'], ['adv', 60], ['settle']]
    prog = {'cfg': cfg, 'inter': [], 'heal': False, '_handler_factory': {}, '_actions': {}}
    if hk != 'core':
        sf, _go, _disp = build_rx(sc, 3 if hk == 'rx3' else 4)
        prog['_handler_factory']['s'] = sf
    if ck == 'core':
        pre = [['tick', 3], ['start']]
        if sc.get('dispose_ticks') is not None and sc['model'] in ('st', 'ch'):
            if sc['dispose_ticks']:
                pre.append(['tick', sc['dispose_ticks']])
            pre.append(['cancel', 0, 'resp'])
        for k in sc.get('topup') or ():
            pre.append(['req', 0, 'resp', k])
        prog['inter'] = [build_core(sc)]
        prog['ops'] = pre + ops_tail
        if sc['model'] == 'setup':
            prog['inter'] = []
            prog['ops'] = [['tick', 3]] + ops_tail
        return run_program(prog)
    _sf, go, dispose_now = build_rx(sc, 3 if ck == 'rx3' else 4)
    if hk == 'core' and sc['model'] in ('st', 'ch', 'rr', 'fnf'):
        # the core handler finds its script through the stream id: adopt the interaction the Rx client is about to issue
        prog['inter'] = [build_core(sc)]
        inner = go

        def go(scn, _inner=inner):
            _inner(scn)
            sock = scn.sock['c']
            sid = sock._stream_control._current_stream_id
            spec = scn.inter[0]
            scn.st[0] = {'spec': spec, 'uid': 0, 'pub': {}, 'libpub': {}, 'sub': {}, 'hfut': None, 'fut': None, 'sid': sid}
            scn.started.append(0)
            scn.world.bind('c', sid, 0)
    ops = [['tick', 3], ['call', 'go']]
    if sc.get('dispose_ticks'):
        ops += [['tick', sc['dispose_ticks']], ['call', 'dispose']]
    prog['ops'] = ops + ops_tail
    prog['_actions'] = {'go': go, 'dispose': dispose_now}
    return run_program(prog)


def observed(tr, variant, who):
    """normalised observation sequence: ('next', d, m) / ('completed',) / ('error',) / ('dispose',)"""
    out = []
    ck, hk = kinds(variant)
    side_kind = ck if who == 'requester' else hk
    if side_kind == 'core':
        side, dirn = ('c', 'resp') if who == 'requester' else ('s', 'req')
        for e in tr.world.log:
            if e.get('uid') == 0 and e['side'] == side and e.get('dir') == dirn:
                if e['ev'] == 'on_next':
                    if e['data'] or e['metadata']:
                        out.append(('next', e['data'], e['metadata']))
                    if e.get('complete'):
                        out.append(('completed',))
                elif e['ev'] == 'on_complete':
                    out.append(('completed',))
                elif e['ev'] == 'on_error':
                    out.append(('error',))
                elif e['ev'] == 'sub_cancel':
                    out.append(('dispose',))
            if e.get('uid') == 0 and e['ev'] in ('rr_result', 'rr_error') and who == 'requester':
                if e['ev'] == 'rr_result':
                    if e['data'] or e['metadata']:
                        out.append(('next', e['data'], e['metadata']))
                    out.append(('completed',))
                else:
                    out.append(('error',))
        return out
    name = 'requester' if who == 'requester' else 'responder_in'
    for e in tr.world.log:
        if e['ev'] == 'obs' and e['who'] == name:
            if e['what'] == 'next':
                out.append(('next', e['data'], e['metadata']))
            else:
                out.append((e['what'],))
    return out


def judge_variant(sc, variant):
    tr = run_variant(sc, variant)
    out = []
    model = sc['model']
    lens = sc['lens']
    tag = 'C20:%s' % variant

    def bad(kind, sig, **kw):
        out.append(viol(kind, '%s:%s' % (tag, sig), variant=variant, model=model, **kw))

    wire_c = tr.world.wire.get('c', [])
    wire_s = tr.world.wire.get('s', [])
    if model in ('st', 'ch', 'rr'):
        want = expected_seq(sc['n'], sc['err_at'], A.TAG_RESP, lens)
        if model == 'rr' and sc['n'] == 0 and sc['err_at'] is None:
            want = [('completed',)]
        got = observed(tr, variant, 'requester')
        j = sc['dispose_after']
        if sc.get('dispose_ticks') is not None:
            # application-timed dispose: whatever arrived before it must be a prefix of the scenario, nothing after it
            full = observed(tr, variant, 'requester')
            if ('dispose',) in full:
                k = full.index(('dispose',))
                before, after = full[:k], full[k + 1:]
                if after:
                    bad('signal_after_dispose', 'after_dispose:%s' % model, extra=[x[0] for x in after])
                if before != want[:len(before)]:
                    bad('requester_observation_differs', 'requester_differs:%s' % model, want=[x[0] for x in want][:20],
                        got=[x[0] for x in before][:20])
            got = want
        if j is not None:
            want = want[:j] + [('dispose',)]
            got = got[:len(want)] if got[:len(want)] == want else got
            extra = observed(tr, variant, 'requester')[len(want):]
            if got == want and extra:
                bad('signal_after_dispose', 'after_dispose:%s' % model, extra=[x[0] for x in extra])
        if got != want:
            kind = 'missing' if len(got) < len(want) and want[:len(got)] == got else ('extra' if got[:len(want)] == want else 'differs')
            bad('requester_observation_differs', 'requester_%s:%s' % (kind, model), want=[x[0] for x in want][:20],
                got=[x[0] for x in got][:20], n=sc['n'], limit=sc['limit'], err_at=sc['err_at'], dispose_after=j)
    if model == 'ch' and not (sc['dispose_after'] is not None) and sc.get('dispose_ticks') is None:
        want = expected_seq(sc['m'], sc.get('rerr_at'), A.TAG_REQEL, lens)
        got = observed(tr, variant, 'responder_in')
        # the responder's inbound direction is independent of the outbound one except that an error from the
        # responder's own observable / a dispose ends the interaction: judge it when the outbound side is undisturbed
        if sc['err_at'] is None and got != want:
            kind = 'missing' if len(got) < len(want) and want[:len(got)] == got else ('extra' if got[:len(want)] == want else 'differs')
            bad('responder_observation_differs', 'responder_%s' % kind, want=[x[0] for x in want][:20], got=[x[0] for x in got][:20],
                m=sc['m'], rerr_at=sc.get('rerr_at'))
    ck, hk = kinds(variant)
    if ck != 'core' and model in ('st', 'ch'):
        reqs = [e for e in wire_c if e['f']['type'] in ('REQUEST_STREAM', 'REQUEST_CHANNEL')]
        if reqs and reqs[0]['f'].get('n') != sc['limit']:
            bad('initial_request_n_differs_from_limit', 'initial_n', n=reqs[0]['f'].get('n'), limit=sc['limit'])
        rns = [e for e in wire_c if e['f']['type'] == 'REQUEST_N']
        if any(e['f'].get('n') != sc['limit'] for e in rns):
            bad('request_n_differs_from_limit', 'request_n_value', values=[e['f'].get('n') for e in rns][:8], limit=sc['limit'])
        # credit is renewed only after `limit` further elements arrived
        recv_next = [e for e in tr.world.recv.get('c', []) if e['f']['type'] == 'PAYLOAD' and e['f'].get('next') and
                     not e['f'].get('follows') and (e['f']['data'] or e['f']['metadata'])]
        for i, e in enumerate(rns):
            arrived = sum(1 for x in recv_next if x['seq'] < e['seq'])
            if arrived < (i + 1) * sc['limit']:
                bad('credit_renewed_early', 'credit_early', request_index=i, arrived=arrived, limit=sc['limit'])
                break
    if hk != 'core' and model in ('st', 'ch'):
        # the handler's observable reaches the wire within the credit received
        credit = 0
        sent = 0
        in_train = False
        for e in tr.world.log:
            if e['side'] != 's' or e['ev'] not in ('send', 'recv'):
                continue
            f = e['f']
            if f['sid'] in (0, None):
                continue
            if e['ev'] == 'recv':
                if f['type'] in ('REQUEST_STREAM', 'REQUEST_CHANNEL') and not f.get('follows') or f['type'] == 'REQUEST_N':
                    credit = min(MAXN, credit + (f.get('n') or 0))
                elif f['type'] in ('REQUEST_STREAM', 'REQUEST_CHANNEL'):
                    credit = min(MAXN, credit + (f.get('n') or 0))
            elif f['type'] == 'PAYLOAD':
                start = not in_train
                in_train = bool(f.get('follows'))
                if start and f.get('next') and (f['data'] or f['metadata']):
                    sent += 1
                    if sent > credit:
                        bad('handler_observable_exceeds_credit', 'over_credit', sent=sent, credit=credit, bp=sc['bp'])
                        break
        if sc['bp']:
            fb = [e['n'] for e in tr.world.log if e['ev'] == 'feedback' and e.get('src') == 'resp']
            credits = [e['f'].get('n') for e in tr.world.recv.get('s', []) if
                       (e['f']['type'] in ('REQUEST_STREAM', 'REQUEST_CHANNEL') and not e['f'].get('follows')) or e['f']['type'] == 'REQUEST_N']
            first_frag = [e['f'].get('n') for e in tr.world.recv.get('s', []) if e['f']['type'] in ('REQUEST_STREAM', 'REQUEST_CHANNEL')]
            if first_frag and credits and credits[0] != first_frag[0]:
                credits = first_frag[:1] + [c for c in credits]
            if fb != credits[:len(fb)] or (len(fb) < len(credits) and sc['err_at'] is None and sc['dispose_after'] is None
                                            and len(fb) * 1 < 1):
                bad('feedback_differs_from_credit', 'feedback', feedback=fb[:8], credits=credits[:8])
    if ck != 'core' and model in ('st', 'ch'):
        if sc['dispose_after'] is not None or sc.get('dispose_ticks') is not None:
            cancels = [e for e in wire_c if e['f']['type'] == 'CANCEL']
            disposed = any(e['ev'] == 'obs' and e['what'] == 'dispose' for e in tr.world.log)
            terminal_before = False
            request_sent = any(e['f']['type'] in ('REQUEST_STREAM', 'REQUEST_CHANNEL') for e in wire_c)
            if disposed and not request_sent:
                # disposed before the request ever left: nothing to cancel (and nothing may be produced)
                if any(e['f']['type'] == 'PAYLOAD' for e in wire_s):
                    bad('production_without_request', 'dispose_no_request')
                disposed = False
            if disposed and len(cancels) != 1:
                # the stream may have been over when dispose took effect (the adapter cancels from a task, so a terminal
                # frame that arrives before that task is scheduled legitimately wins the race)
                terminal_before = any(e['f']['type'] in ('PAYLOAD', 'ERROR') and not e['f'].get('follows') and
                                      (e['f'].get('complete') or e['f']['type'] == 'ERROR') for e in tr.world.recv.get('c', []))
                if not terminal_before or len(cancels) > 1:
                    bad('dispose_did_not_cancel', 'dispose_cancel_count:%d' % len(cancels), n=len(cancels))
            if disposed and sc['bp'] and not terminal_before and hk != 'core':
                started = any(e['ev'] == 'gen_start' and e.get('src') == 'resp' for e in tr.world.log)
                finished = any(e['ev'] in ('gen_finally', 'feedback_completed') and e.get('src') == 'resp' for e in tr.world.log)
                if started and not finished:
                    bad('dispose_did_not_cancel_source', 'dispose_source')
    if hk != 'core':
        delegate = [e for e in tr.world.log if e['ev'] == 'delegate']
        d, m = el(0, A.TAG_REQ, 0, [6, 2])
        sd, sm = el(0, A.TAG_REQ, 9, [4, 3])
        setups = [e for e in delegate if e['what'] == 'on_setup']
        if len(setups) != 1 or (setups[0]['data_encoding'], setups[0]['metadata_encoding'], setups[0]['data'], setups[0]['metadata']) != \
                (b'application/x-c20', b'message/x.c20', sd, sm):
            bad('delegate_on_setup_wrong', 'delegate:on_setup', n=len(setups))
        rejections = [e for e in tr.world.wire.get('s', []) if e['f']['type'] == 'ERROR' and e['f']['sid'] == 0]
        if sc.get('reject'):
            # what a core handler raising from on_setup gets: one ERROR[REJECTED_SETUP] on stream 0
            if len(rejections) != 1 or rejections[0]['f'].get('code') != 3:
                bad('setup_rejection_lost', 'delegate:on_setup:rejection', n=len(rejections),
                    code=rejections[0]['f'].get('code') if rejections else None)
        elif rejections:
            bad('setup_rejected_without_cause', 'delegate:on_setup:spurious_rejection', n=len(rejections))
        if model == 'fnf':
            calls = [e for e in delegate if e['what'] == 'request_fire_and_forget']
            if len(calls) != 1 or (calls[0]['data'], calls[0]['metadata']) != (d, m):
                bad('delegate_not_reached', 'delegate:request_fire_and_forget', n=len(calls))
        if model == 'mp':
            calls = [e for e in delegate if e['what'] == 'on_metadata_push']
            if len(calls) != 1 or calls[0]['metadata'] != (m or b'mp'):
                bad('delegate_not_reached', 'delegate:on_metadata_push', n=len(calls))
    for err in tr.loop_errors:
        # Rx schedulers report through the loop handler too; a RecursionError / TypeError from the adapters is a defect
        bad('unhandled_exception', 'loop_error:%s' % err.get('type'), **{k: v for k, v in err.items() if k != 'type'})
    return out


# ---- a source far longer than anything that can be in flight: an early dispose must stop it, not drain it

LONG_N = 1500
LONG_VARIANTS = ('rx3', 'rx4', 'core/rx3', 'core/rx4')


@st.composite
def long_scenarios(draw):
    sc = {'model': draw(st.sampled_from(['st', 'st', 'ch'])), 'n': LONG_N, 'limit': draw(st.sampled_from([MAXN, MAXN, 1000, 700])),
          'err_at': None, 'dispose_after': None, 'dispose_ticks': None, 'bp': True, 'msg': draw(st.booleans()),
          'rbuf': draw(st.sampled_from([7, 1024])), 'frag': None, 'lens': draw(st.sampled_from([[5, 0], [0, 4]])),
          'flag_end': False, 'long': True}
    if draw(st.booleans()):
        sc['dispose_after'] = draw(st.integers(1, 6))
    else:
        sc['dispose_ticks'] = draw(st.sampled_from([2, 3, 5, 8]))
    if sc['model'] == 'ch':
        sc.update(m=draw(st.integers(0, 3)), rbp=False, rerr_at=None, resp_limit=MAXN)
    return sc


def long_prop(sc):
    out = []
    for variant in LONG_VARIANTS:
        tr = run_variant(sc, variant)
        yields = sum(1 for e in tr.world.log if e['ev'] == 'yield' and e.get('src') == 'resp')
        disposed = any((e['ev'] == 'obs' and e.get('what') == 'dispose') or e['ev'] == 'sub_cancel' for e in tr.world.log)
        cancel_sent = any(e['f']['type'] == 'CANCEL' for e in tr.world.wire.get('c', []))
        if disposed and cancel_sent and yields >= sc['n']:
            out.append(viol('source_drained_after_early_dispose', 'C20:%s:dispose_source_drained' % variant, variant=variant,
                            model=sc['model'], yields=yields, n=sc['n'], limit=sc['limit'],
                            dispose_after=sc['dispose_after'], dispose_ticks=sc['dispose_ticks']))
        for err in tr.loop_errors:
            out.append(viol('unhandled_exception', 'C20:%s:loop_error:%s' % (variant, err.get('type')), variant=variant))
        info['long_yields'] = yields
    info['nt'] = True
    info['classes'] = ['long_source=True', 'model=' + sc['model']]
    return out


# ---- a fire-and-forget followed by another request: the order in which the delegate sees them (differential against core)

def fnf_order_run(variant, k, same_read, msg):
    """handler variant 'core' | 'rx3' | 'rx4'; the fire-and-forget handler suspends k loop iterations before it is done"""
    import asyncio as aio

    def factory(scn):
        world = scn.world
        P = A.lib()['Payload']

        async def fnf_body():
            world.ev('s', 'order', what='fnf_start')
            for _ in range(k):
                await aio.sleep(0)
            world.ev('s', 'order', what='fnf_done')

        if variant == 'core':
            from rsocket.request_handler import BaseRequestHandler
            from rsocket.helpers import create_future

            class H(BaseRequestHandler):
                async def request_fire_and_forget(self, payload):
                    await fnf_body()

                async def request_response(self, payload):
                    world.ev('s', 'order', what='rr_handler')
                    return create_future(P(b'answer', b''))

            return H
        M = rxmods(3 if variant == 'rx3' else 4)

        class Delegate(M['Base']):
            async def request_fire_and_forget(self, payload):
                await fnf_body()

            async def request_response(self, payload):
                world.ev('s', 'order', what='rr_handler')
                return M['rx'].of(P(b'answer', b''))

        return M['hf'](Delegate)

    ops = [['tick', 3]]
    if same_read:
        ops += [['regime', 'manual'], ['start'], ['start'], ['tick', 2], ['deliver', 'c', None], ['regime', 'pumped']]
    else:
        ops += [['start'], ['tick', 1], ['start']]
    ops += [['tick', 8], ['settle']]
    prog = {'cfg': {'msg': msg, 'frag': [None, None], 'rbuf': [1024, 1024]},
            'inter': [{'k': 'fnf', 'side': 'c', 'req': [5, 0]}, {'k': 'rr', 'side': 'c', 'req': [4, 0], 'resp': {'mode': 'now', 'p': [1, 0]}}],
            'ops': ops, 'heal': False, '_handler_factory': {'s': factory}}
    tr = run_program(prog)
    order = [e['what'] for e in tr.world.log if e['ev'] == 'order']
    answered = any(e['ev'] == 'rr_result' for e in tr.world.log)
    return order, answered, tr


def fnf_order_prop(case):
    out = []
    ref, ref_ans, _ = fnf_order_run('core', case['k'], case['same_read'], case['msg'])
    for variant in ('rx3', 'rx4'):
        got, ans, tr = fnf_order_run(variant, case['k'], case['same_read'], case['msg'])
        if got != ref or ans != ref_ans:
            out.append(viol('delegate_order_differs_from_core', 'C20:%s:fnf_order' % variant, variant=variant, core=ref, adapter=got,
                            k=case['k'], same_read=case['same_read']))
        for err in tr.loop_errors:
            out.append(viol('unhandled_exception', 'C20:%s:loop_error:%s' % (variant, err.get('type')), variant=variant))
    info['nt'] = case['k'] > 0
    info['classes'] = ['fnf_then_request=True']
    return out


def fnf_order_cases():
    return [{'fnf_order': True, 'k': k, 'same_read': sr, 'msg': msg} for k in (0, 1, 2, 4) for sr in (True, False) for msg in (False, True)]


VARIANTS = ('core', 'rx3', 'rx4', 'core/rx3', 'core/rx4', 'rx3/core', 'rx4/core')

info = {}


# ---- several connections served through one handler factory object: each connection gets a delegate of its own

@st.composite
def multi_cases(draw):
    return {'multi': True, 'version': draw(st.sampled_from([3, 4])), 'msg': draw(st.booleans()),
            'conns': [draw(st.lists(st.sampled_from(['fnf', 'mp', 'rr']), min_size=1, max_size=3))
                      for _ in range(draw(st.integers(2, 3)))]}


def multi_prop(case):
    sc = {'model': 'rr', 'n': 1, 'limit': MAXN, 'err_at': None, 'dispose_after': None, 'dispose_ticks': None, 'bp': False,
          'msg': case['msg'], 'rbuf': 1024, 'frag': None, 'lens': [5, 0], 'flag_end': False}
    sf, _go, _disp = build_rx(sc, case['version'])
    inter, ops = [], [['tick', 3], ['settle']]
    for i, kinds_ in enumerate(case['conns']):
        if i:
            ops += [['reconnect'], ['tick', 6], ['settle']]
        ops.append(['mark', 'connection:%d' % i])
        for k in kinds_:
            spec = {'k': k, 'side': 'c', 'req': [6, 2] if k != 'mp' else [0, 2]}
            if k == 'rr':
                spec['resp'] = {'mode': 'now', 'p': [5, 0]}
            inter.append(spec)
            ops += [['start'], ['tick', 4], ['settle']]
    ops.append(['mark', 'connection:%d' % len(case['conns'])])
    prog = {'cfg': {'msg': case['msg'], 'frag': [None, None], 'rbuf': [1024, 1024], 'transports': len(case['conns']),
                    'setup_payload': list(el(0, A.TAG_REQ, 9, [4, 3])), 'data_encoding': b'application/x-c20',
                    'metadata_encoding': b'message/x.c20'},
            'inter': inter, 'ops': ops, 'heal': False, '_handler_factory': {'s': sf}, '_actions': {}}
    tr = run_program(prog)
    out = []
    variant = 'rx%d' % case['version']

    def bad(kind, sig, **kw):
        out.append(viol(kind, 'C20:%s:%s' % (variant, sig), variant=variant, **kw))

    marks = {e['name']: e['seq'] for e in tr.world.log if e['ev'] == 'mark'}
    created = [e for e in tr.world.log if e['ev'] == 'delegate_created']
    if len(created) != len(case['conns']):
        bad('delegates_per_connection_wrong', 'multi:delegate_count', delegates=len(created), connections=len(case['conns']))
    want_what = {'fnf': 'request_fire_and_forget', 'mp': 'on_metadata_push', 'rr': 'request_response'}
    seen_setup = {}
    for e in tr.world.log:
        if e['ev'] == 'delegate' and e['what'] == 'on_setup':
            seen_setup.setdefault(e['inst'], 0)
            seen_setup[e['inst']] += 1
    if sorted(seen_setup.items()) != [(i, 1) for i in range(len(case['conns']))]:
        bad('delegate_on_setup_wrong', 'multi:on_setup', per_delegate=sorted(seen_setup.items()), connections=len(case['conns']))
    for i, kinds_ in enumerate(case['conns']):
        lo, hi = marks['connection:%d' % i], marks['connection:%d' % (i + 1)]
        calls = [(e['what'], e['inst']) for e in tr.world.log if e['ev'] == 'delegate' and lo < e['seq'] < hi
                 and e['what'] != 'on_setup']
        want = [(want_what[k], i) for k in kinds_]
        if calls != want:
            bad('request_reached_another_connections_delegate' if [c[0] for c in calls] == [w[0] for w in want]
                else 'delegate_not_reached', 'multi:calls', connection=i, got=calls, want=want)
            break
    for err in tr.loop_errors:
        bad('unhandled_exception', 'loop_error:%s' % err.get('type'), **{k: v for k, v in err.items() if k != 'type'})
    info['nt'] = True
    info['classes'] = ['part=multi_connection', 'connections=%d' % len(case['conns']), 'version=%d' % case['version']]
    return out


def multi_shard(tier, seed, n):
    common.use_repo()
    stats = common.Stats()
    known = common.Known(PID)
    common.hyp_search(stats, known, multi_cases(), multi_prop, n, seed, classify=classify, shrink=True)
    return stats


def prop(sc):
    vs = []
    for variant in VARIANTS:
        vs.extend(judge_variant(sc, variant))
    n, lim = sc['n'], sc['limit']
    inside = (sc['err_at'] is not None and 0 < sc['err_at'] < n) or (sc['dispose_after'] is not None and 0 < sc['dispose_after'] < n) \
        or sc.get('dispose_ticks') is not None
    info['nt'] = (n >= 3 and lim < n) or inside
    info['classes'] = ['model=' + sc['model'], 'limited_credit=%s' % (lim < n), 'error=%s' % (sc['err_at'] is not None),
                       'dispose=%s' % (sc['dispose_after'] is not None or sc.get('dispose_ticks') is not None),
                       'dispose_immediately=%s' % (sc.get('dispose_ticks') == 0), 'backpressure_factory=%s' % sc['bp'],
                       'credit_topped_up_in_steps=%s' % bool(sc.get('topup'))]
    return vs


def classify(case, vs):
    return info['nt'], info['classes'], None


REGRESSION = [
    # D8: metadata-push through the handler adapters
    {'model': 'mp', 'n': 0, 'limit': MAXN, 'err_at': None, 'dispose_after': None, 'dispose_ticks': None, 'bp': False, 'msg': False,
     'rbuf': 1024, 'frag': None, 'lens': [5, 0]},
    {'model': 'st', 'n': 4, 'limit': 2, 'err_at': None, 'dispose_after': None, 'dispose_ticks': 0, 'bp': True, 'msg': False, 'rbuf': 1024,
     'frag': None, 'lens': [5, 0]},
    {'model': 'st', 'n': 7, 'limit': 2, 'err_at': None, 'dispose_after': 3, 'bp': True, 'msg': False, 'rbuf': 7, 'frag': None,
     'lens': [5, 0]},
]


def shard(tier, seed, n):
    common.use_repo()
    stats = common.Stats()
    known = common.Known(PID)
    if n is None:
        for c in REGRESSION:
            vs = prop(c)
            stats.case(c, True, ['regression'])
            for v in common.judge(stats, known, c, vs):
                stats.violations.append((v, c))
        for c in fnf_order_cases():
            vs = fnf_order_prop(c)
            stats.case(c, info['nt'], info['classes'])
            for v in common.judge(stats, known, c, vs):
                if not any(v['sig'] == vv['sig'] for vv, _ in stats.violations):
                    stats.violations.append((v, c))
        return stats
    common.hyp_search(stats, known, scenarios(), prop, n, seed, classify=classify)
    return stats


def long_shard(tier, seed, n):
    common.use_repo()
    stats = common.Stats()
    known = common.Known(PID)
    common.hyp_search(stats, known, long_scenarios(), long_prop, n, seed, classify=classify)
    return stats


def run(tier, seed):
    t0 = time.time()
    total = 4800 if tier == 'quick' else 40000
    jobs = [('shard', dict(tier=tier, seed=0, n=None))] + [('shard', dict(tier=tier, seed=s, n=total // common.NPROC))
                                                            for s in common.shard_seeds(seed, common.NPROC)]
    nlong = 32 if tier == 'quick' else 640
    jobs += [('long_shard', dict(tier=tier, seed=s + 4242, n=nlong // 8)) for s in common.shard_seeds(seed, 8)]
    nmulti = 96 if tier == 'quick' else 1600
    jobs += [('multi_shard', dict(tier=tier, seed=s + 777, n=nmulti // 4)) for s in common.shard_seeds(seed, 4)]
    stats = common.run_shards_multi(__name__, jobs)
    stats.extra['executions_per_scenario'] = len(VARIANTS)
    stats.extra['variants'] = list(VARIANTS)
    return common.finish(PID, tier, seed, LEVEL, RULE, stats, t0, ASSUMPTIONS)


def replay(path):
    common.use_repo()
    case = common.load_replay(path)
    if case.get('long'):
        return common.report_replay(PID, path, long_prop(case))
    if case.get('fnf_order'):
        return common.report_replay(PID, path, fnf_order_prop(case))
    if case.get('multi'):
        return common.report_replay(PID, path, multi_prop(case))
    return common.report_replay(PID, path, prop(case))
