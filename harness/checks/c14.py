"""C14 Lease: no request without a valid lease, never more than granted (Engine C, virtual clock)."""
import time

from hypothesis import strategies as st

from harness import common, gen, monitors
from harness.common import viol
from harness.programs import run_program as _run_program


class _Stuck(Exception):
    pass


def run_program(prog):
    # programs take milliseconds; one that does not return within 20 s of wall clock is looping inside the code under test
    try:
        return _run_program(prog, timeout=20)
    except common.CaseTimeout:
        raise _Stuck()

PID = 'C14'
LEVEL = 'exploration'
RULE = ('Requester: a real client with honor_lease=True and request_queue_size in {0 (unbounded), 1, 3} against a raw '
        'granter; Hypothesis generates timelines of events at virtual times: LEASE(n in {0,1,2,5,100}, ttl 0 ms..10 s for the requester; 0 ms..2^31-1 ms incl. whole days for the granter), '
        'requests of the four request types (some fragmented), time advances (never within 0.5 ms of an expiry instant). '
        'Oracle = reference lease model replayed over the requester\'s own event log: no request frame before the first '
        'LEASE was yielded; under each lease at most its count of request frames, all before arrival + ttl; a new LEASE '
        'replaces the allowance; blocked requests are retained (up to the queue size) and reach the wire in API-call '
        'order - the wire order of request frames equals the model\'s release order; every stream id carries at most one '
        'request frame. Granter: a real server with a lease publisher against a raw client that set the lease flag; the '
        'LEASE frames on its wire are, in order, exactly the published leases with number_of_requests == n and '
        'time_to_live == round(ttl in ms), also when the publisher emits the same lease object again. Answer and LEASE in one read: 2-5 requests are retained, the answer to an earlier request and a LEASE arrive back to back, '
        'the application issues 1-3 further requests from the answer\'s callback: the wire order is the order of issue. Reconnecting requester: the C17 reconnect histories with a lease-honouring client '
        '(leases left over, used up, or requests waiting for one when the connection ends): on every connection no request '
        'frame leaves before that connection\'s own first LEASE arrived, and never more than it grants. Non-trivial = >= 2 leases of which one expired or was exhausted with requests '
        'still queued; distinct = timeline hash.')
ASSUMPTIONS = ['datetime.now() of rsocket.lease is virtualised by rebinding the module-level name',
               'no request(n)/cancel on a lease-blocked stream (D11, judged by C08)',
               'every timeline event is followed by a run to quiescence, so release and send happen in the same window']

KINDS = ['rr', 'fnf', 'st', 'ch']


@st.composite
def timelines(draw):
    frag = draw(st.sampled_from([None, None, 64]))
    queue = draw(st.sampled_from([0, 0, 1, 3]))
    ev = st.one_of(
        st.tuples(st.just('lease'), st.sampled_from([0, 1, 1, 2, 2, 5, 100]), st.sampled_from([0, 1, 5, 50, 100, 1000, 10000])),
        st.tuples(st.just('req'), st.sampled_from(KINDS)),
        st.tuples(st.just('req'), st.sampled_from(KINDS)),
        st.tuples(st.just('adv'), st.sampled_from([1, 2, 4, 9, 30, 49, 51, 99, 101, 500, 999, 1001, 5000, 9999, 10001])),
    )
    events = [list(e) for e in draw(st.lists(ev, min_size=3, max_size=25))]
    return {'frag': frag, 'queue': queue, 'events': events, 'msg': draw(st.booleans()),
            'big': draw(st.booleans())}


def model(tl):
    """Reference lease model. Returns (release order of request indices, per-request window info, nudged events)."""
    t = 0.0
    lease = None  # [n, expiry, used, index]
    queue = []
    released = []
    events = []
    qsize = tl['queue']
    nreq = 0
    raised = set()
    info = {'leases': 0, 'expired_or_exhausted_with_queue': False}
    for e in tl['events']:
        if e[0] == 'adv':
            t += e[1]
            events.append(e)
        elif e[0] == 'lease':
            if lease is not None and queue:
                info['expired_or_exhausted_with_queue'] = True
            n, ttl = e[1], e[2]
            lease = [n, t + ttl, 0, info['leases']]
            info['leases'] += 1
            events.append(e)
            while queue and lease[2] < lease[0] and ttl > 0:  # (a lease of zero milliseconds has expired on arrival)
                released.append((queue.pop(0), lease[3], t))
                lease[2] += 1
        else:
            # keep requests away from the expiry instant (the statement does not fix the boundary)
            if lease is not None and abs(t - lease[1]) < 0.5:
                events.append(['adv', 1.0])
                t += 1.0
            idx = nreq
            nreq += 1
            events.append(['req', e[1], idx])
            if lease is not None and t < lease[1] and lease[2] < lease[0]:
                lease[2] += 1
                released.append((idx, lease[3], t))
            else:
                if qsize and len(queue) >= qsize:
                    raised.add(idx)
                else:
                    queue.append(idx)
    return released, raised, events, info, nreq


def build(tl):
    released, raised, events, info, nreq = model(tl)
    frag = tl['frag']
    inter = []
    ops = [['tick', 3], ['settle']]
    for e in events:
        if e[0] == 'adv':
            ops.append(['adv', e[1]])
            ops.append(['settle'])
        elif e[0] == 'lease':
            ops.append(['rawframe', {'type': 'LEASE', 'sid': 0, 'ttl': e[2], 'count': e[1], 'metadata': None}])
            ops.append(['settle'])
        else:
            k = e[1]
            req = [150, 20] if (tl['big'] and frag) else [5, 2]
            spec = {'k': k, 'side': 'c', 'req': req}
            if k == 'rr':
                spec['resp'] = {'mode': 'manual', 'p': [3, 0]}
            if k in ('st', 'ch'):
                spec['src'] = {'kind': 'manual', 'els': [], 'end': 'sep'}
                spec['sub'] = {'n0': 5, 'refill': 0}
            if k == 'ch':
                spec['rsrc'] = None
                spec['rsub'] = None
            inter.append(spec)
            ops.append(['start'])
            ops.append(['settle'])
    ops.append(['settle'])
    prog = {'cfg': {'msg': tl['msg'], 'frag': [frag, None], 'rbuf': [1024, 1024], 'raw': 's', 'lease': {'queue': tl['queue']}},
            'inter': inter, 'ops': ops, 'heal': False}
    return prog, released, raised, info


def judge_requester(tl):
    prog, released, raised, info = build(tl)
    tr = run_program(prog)
    out = []
    wire = tr.world.wire.get('c', [])
    recv = tr.world.recv.get('c', [])
    leases = [e for e in recv if e['f']['type'] == 'LEASE']
    first_lease_seq = leases[0]['seq'] if leases else None
    # request frames = first frames of each request (type REQUEST_*)
    reqs = [e for e in wire if e['f']['type'] in monitors.REQ_TYPES]
    # (a) nothing before the first lease
    for e in reqs:
        if first_lease_seq is None or e['seq'] < first_lease_seq:
            out.append(viol('request_before_first_lease', 'C14:before_first_lease:%s' % e['f']['type'], sid=e['f']['sid']))
            break
    # (b) per lease window
    for i, l in enumerate(leases):
        nxt = leases[i + 1]['seq'] if i + 1 < len(leases) else 1 << 60
        in_win = [e for e in reqs if l['seq'] < e['seq'] < nxt]
        n, ttl = l['f']['count'], l['f']['ttl']
        if len(in_win) > n:
            out.append(viol('more_requests_than_granted', 'C14:over_count', lease=i, granted=n, sent=len(in_win)))
        for e in in_win:
            if e['t'] >= l['t'] + ttl / 1000.0 - 1e-9:
                out.append(viol('request_after_lease_expired', 'C14:after_expiry', lease=i, ttl_ms=ttl,
                                age_ms=round((e['t'] - l['t']) * 1000, 3)))
                break
    # (d) one request frame per stream id
    seen = {}
    for e in reqs:
        seen[e['f']['sid']] = seen.get(e['f']['sid'], 0) + 1
    dup = {s: c for s, c in seen.items() if c > 1}
    if dup:
        out.append(viol('request_sent_twice', 'C14:request_twice', sids=sorted(dup)))
    # (c) wire order equals the model's release order (retained, FIFO, nothing lost)
    issued = [e for e in tr.world.log if e['ev'] == 'issue']
    sid_of = {}
    api_raised = set()
    for e in issued:
        sid_of[e['uid']] = e.get('sid')
    for uid, stt in tr.scn.st.items():
        if stt.get('issue_raised'):
            api_raised.add(uid)
    want = [sid_of.get(idx) for idx, _, _ in released]
    got = [e['f']['sid'] for e in reqs]
    if api_raised != raised:
        out.append(viol('queue_overflow_differs_from_model', 'C14:overflow_differs', api_raised=sorted(api_raised),
                        model=sorted(raised), queue=tl['queue']))
    elif got != want:
        kind = 'lost' if len(got) < len(want) else ('extra' if len(got) > len(want) else 'reordered')
        out.append(viol('release_order_differs_from_model', 'C14:release_%s' % kind, got=got[:12], want=want[:12]))
    for err in tr.loop_errors:
        out.append(viol('unhandled_exception', 'C14:loop_error:%s' % err.get('type'), **err))
    nt = info['leases'] >= 2 and info['expired_or_exhausted_with_queue']
    classes = ['role=requester', 'leases=%s' % (info['leases'] if info['leases'] < 4 else '4+'), 'queue=%d' % tl['queue'],
               'fragmented=%s' % bool(tl['frag'] and tl['big']), 'queued_then_released=%s' % nt]
    return out, nt, classes


@st.composite
def granter_cases(draw):
    leases = draw(st.lists(st.tuples(st.sampled_from([0, 1, 2, 5, 100, 0x7FFFFFFF]),
                                     st.one_of(st.sampled_from([0, 1, 500, 1500, 2500, 10000, 999, 1001]),
                                               st.integers(1, 100000),
                                               # hours, days, and the 31-bit maximum the default publishers use
                                               st.sampled_from([3600000, 86399999, 86400000, 86400001, 172803250, 0x7FFFFFFF]),
                                               st.integers(100000, 0x7FFFFFFF)),
                                     st.sampled_from([0, 100, 200, 400, 600, 900])), min_size=1, max_size=6))
    # the wire field is 31 bits of milliseconds: keep the published value representable
    leases = [(n, ms, us if ms < 0x7FFFFFFF else 0) for n, ms, us in leases]
    # several leases published in one go (grant then revoke, ...) must be announced in the order they were published
    return {'leases': [list(l) for l in leases], 'msg': draw(st.booleans()), 'burst': draw(st.booleans()),
            'blocked': draw(st.booleans()),
            # which publications re-emit the previous lease object instead of a new one
            'again': [draw(st.sampled_from([False, False, True])) for _ in leases]}


def judge_granter(case):
    """real server with a lease publisher; ttl given as (ms, extra microseconds) -> expected round(ms + us/1000)"""
    ops = [['tick', 3], ['settle']]
    if case.get('burst') and case.get('blocked'):
        ops.append(['block', 's'])  # the granter's writer is not draining: the announcements pile up in its send queue
    again = case.get('again') or []
    for i, (n, ms, us) in enumerate(case['leases']):
        if i and i < len(again) and again[i]:
            ops.append(['lease', 'again'])  # the publisher emits the lease object it emitted last once more (a renewal)
        else:
            ops.append(['lease', n, ms + us / 1000.0])
        if not case.get('burst'):
            ops.append(['settle'])
            ops.append(['adv', 7])
    if case.get('burst'):
        ops += [['tick', 2], ['unblock', 's'], ['settle']]
    prog = {'cfg': {'msg': case['msg'], 'frag': [None, None], 'rbuf': [1024, 1024], 'raw': 'c', 'lease': {'queue': 0},
                    'raw_setup_lease': True}, 'inter': [], 'ops': ops, 'heal': False, 'heal_lease': False}
    tr = run_program(prog)
    out = []
    got = [(f['count'], f['ttl']) for f in tr.scn.raw.frames if f['type'] == 'LEASE']
    want = []
    for i, (n, ms, us) in enumerate(case['leases']):
        want.append(want[-1] if (i and i < len(again) and again[i]) else (n, round(ms + us / 1000.0)))
    if got != want:
        out.append(viol('lease_frames_differ_from_published', 'C14:granter_frames', got=got[:8], want=want[:8]))
    errs = [f for f in tr.scn.raw.frames if f['type'] == 'ERROR']
    if errs:
        out.append(viol('granter_sent_error', 'C14:granter_error', code=errs[0].get('code'), data=errs[0].get('data')))
    return out, True, ['role=granter', 'leases=%d' % len(case['leases']), 'published_in_one_go=%s' % bool(case.get('burst'))]


def reconnect_cases():
    """C17's reconnect histories with a lease-honouring client: every connection starts without a lease."""
    from harness.checks import c17

    def force(case):
        case = dict(case, lease=True, endings=[dict(e) for e in case['endings']])
        for i, e in enumerate(case['endings']):
            e.setdefault('starve', bool(i % 2))
        return {'reconnect': case}

    return c17.cases().map(force)


def judge_reconnect(wrapped):
    from harness.checks import c17
    from harness import monitors
    case = wrapped['reconnect']
    prog, plan = c17.build(case)
    tr = run_program(prog)
    out = []
    # per connection of the client: no request frame leaves before that connection's first LEASE arrived, and under each
    # lease at most its count
    leases = {}
    budget = {}
    sent_before = {}
    for e in tr.world.log:
        if e['side'] != 'c' or e['ev'] not in ('send', 'recv'):
            continue
        cx = e.get('cx', 0)
        f = e['f']
        if e['ev'] == 'recv' and f['type'] == 'LEASE':
            leases.setdefault(cx, []).append(e)
            budget[cx] = f.get('count', 0)
        elif e['ev'] == 'send' and f['type'] in monitors.REQ_TYPES:  # (continuation fragments are PAYLOAD frames)
            if cx not in leases:
                sent_before.setdefault(cx, []).append(f['type'])
            else:
                budget[cx] -= 1
                if budget[cx] < 0:
                    out.append(viol('more_requests_than_granted', 'C14:over_grant:reconnect', cx=cx, type=f['type']))
                    budget[cx] = 10 ** 9
    for cx, types in sent_before.items():
        out.append(viol('request_before_first_lease_of_connection', 'C14:before_first_lease:reconnect', cx=cx, types=types[:5],
                        endings=[e['kind'] for e in case['endings']]))
    nrec = len(case['endings'])
    return out, nrec >= 1, ['role=requester', 'part=reconnect', 'reconnects=%d' % nrec]


info = {}


@st.composite
def overtake_cases(draw):
    """Requests retained for want of a lease; then the answer to an earlier request and the next LEASE arrive in one read and
    the application reacts to the answer by issuing further requests: they join the end of the line."""
    return {'overtake': True, 'retained': draw(st.lists(st.sampled_from(KINDS), min_size=2, max_size=5)),
            'late': draw(st.lists(st.sampled_from(KINDS), min_size=1, max_size=3)),
            'grant': draw(st.sampled_from([2, 3, 5, 100])), 'msg': draw(st.booleans()),
            'gap': draw(st.sampled_from([0, 0, 1]))}


def _req_spec(k):
    spec = {'k': k, 'side': 'c', 'req': [5, 2]}
    if k == 'rr':
        spec['resp'] = {'mode': 'manual', 'p': [3, 0]}
    if k in ('st', 'ch'):
        spec['src'] = {'kind': 'manual', 'els': [], 'end': 'sep'}
        spec['sub'] = {'n0': 5, 'refill': 0}
    if k == 'ch':
        spec['rsrc'] = None
        spec['rsub'] = None
    return spec


def judge_overtake(case):
    nret, nlate = len(case['retained']), len(case['late'])
    first = _req_spec('rr')
    first['then_start'] = list(range(1 + nret, 1 + nret + nlate))
    inter = [first] + [_req_spec(k) for k in case['retained']] + [_req_spec(k) for k in case['late']]
    ops = [['tick', 3], ['settle'], ['rawframe', {'type': 'LEASE', 'sid': 0, 'ttl': 100000, 'count': 1, 'metadata': None}], ['settle'],
           ['start'], ['settle']]
    for _ in case['retained']:
        ops += [['start'], ['settle']]
    # the answer and the LEASE, written back to back (one read on a byte stream, two queued messages otherwise)
    ops += [['rawf', 0, 'next_complete', [3, 0]]]
    if case['gap']:
        ops.append(['tick', case['gap']])
    ops += [['rawframe', {'type': 'LEASE', 'sid': 0, 'ttl': 100000, 'count': case['grant'], 'metadata': None}], ['tick', 6], ['settle']]
    prog = {'cfg': {'msg': case['msg'], 'frag': [None, None], 'rbuf': [1024, 1024], 'raw': 's', 'lease': {'queue': 0}},
            'inter': inter, 'ops': ops, 'heal': False}
    tr = run_program(prog)
    out = []
    sid_to_uid = {tr.scn.st[u]['sid']: u for u in tr.scn.started if tr.scn.st[u]['sid']}
    sent = [sid_to_uid.get(e['f']['sid']) for e in tr.world.wire.get('c', []) if e['f']['type'] in monitors.REQ_TYPES]
    order = [0] + list(range(1, 1 + nret + nlate))
    want = order[:1 + min(case['grant'], nret + nlate)]
    if sent != want:
        kind = 'reordered' if sorted(x for x in sent if x is not None) == sorted(want) else ('lost' if len(sent) < len(want) else 'extra')
        out.append(viol('release_order_differs_from_model', 'C14:release_%s:issued_during_lease_handling' % kind, got=sent[:10], want=want[:10],
                        grant=case['grant']))
    for err in tr.loop_errors:
        out.append(viol('unhandled_exception', 'C14:loop_error:%s' % err.get('type'), **err))
    return out, True, ['role=requester', 'part=answer_and_lease_in_one_read', 'retained=%d' % nret]


def prop(case):
    try:
        return _prop(case)
    except _Stuck:
        info['nt'], info['classes'] = True, ['stuck']
        return [viol('lease_handling_does_not_terminate', 'C14:stuck')]


def _prop(case):
    if 'overtake' in case:
        vs, nt, classes = judge_overtake(case)
        info['nt'], info['classes'] = nt, classes
        return vs
    if 'reconnect' in case:
        vs, nt, classes = judge_reconnect(case)
        info['nt'], info['classes'] = nt, classes
        return vs
    if 'events' in case:
        vs, nt, classes = judge_requester(case)
    else:
        vs, nt, classes = judge_granter(case)
    info['nt'], info['classes'] = nt, classes
    return vs


def classify(case, vs):
    return info['nt'], info['classes'], None


REGRESSION = [
    {'leases': [[2, 500, 0], [3, 1500, 0]], 'msg': False},  # D5: sub-second part doubled
    {'frag': None, 'queue': 0, 'msg': False, 'big': False,
     'events': [['req', 'rr'], ['req', 'st'], ['lease', 1, 50], ['adv', 101], ['req', 'fnf'], ['lease', 2, 1000], ['req', 'ch'],
                ['req', 'rr']]},
]


def shard(tier, seed, n, which):
    common.use_repo()
    stats = common.Stats()
    known = common.Known(PID)
    if which == 'regression':
        for c in REGRESSION:
            vs = prop(c)
            stats.case(c, True, ['regression'])
            for v in common.judge(stats, known, c, vs):
                stats.violations.append((v, c))
        return stats
    strat = {'requester': timelines, 'granter': granter_cases, 'reconnect': reconnect_cases, 'overtake': overtake_cases}[which]()
    common.hyp_search(stats, known, strat, prop, n, seed, classify=classify, shrink=True)
    return stats


def run(tier, seed):
    t0 = time.time()
    total = 6400 if tier == 'quick' else 80000
    seeds = common.shard_seeds(seed, common.NPROC)
    jobs = [dict(tier=tier, seed=0, n=0, which='regression')]
    for i, s in enumerate(seeds):
        jobs.append(dict(tier=tier, seed=s, n=total // len(seeds), which='granter' if i % 4 == 3 else 'requester'))
    jobs += [dict(tier=tier, seed=s + 5, n=(320 if tier == 'quick' else 8000) // 4, which='reconnect') for s in seeds[:4]]
    jobs += [dict(tier=tier, seed=s + 9, n=(240 if tier == 'quick' else 6000) // 4, which='overtake') for s in seeds[:4]]
    stats = common.run_shards(__name__, 'shard', jobs)
    return common.finish(PID, tier, seed, LEVEL, RULE, stats, t0, ASSUMPTIONS)


def replay(path):
    common.use_repo()
    return common.report_replay(PID, path, prop(common.load_replay(path)))
