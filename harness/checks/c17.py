"""C17 Reconnect yields a fresh, working connection (Engine B, fault sequences)."""
import time

from hypothesis import strategies as st

from harness import common, gen, monitors
from harness.common import viol
from harness.programs import run_program

PID = 'C17'
LEVEL = 'fault_enumeration'
RULE = ('A transport provider hands out successive SimNet transports, each attached to a fresh real server. Hypothesis '
        'generates sequences of 1-4 connection endings drawn from {server EOF, transport error (ECONNRESET, ETIMEDOUT, '
        'EHOSTUNREACH), keepalive timeout '
        'through a server that went silent, explicit reconnect() while healthy}, with reconnect() called by the program, '
        'from on_close, or from on_keepalive_timeout, at generated moments relative to 0-4 pending interactions of all '
        'models, plus requests issued while the reconnect is in progress, a transport provider that takes 0-5 ticks and a '
        'transport whose own connect() suspends for 1-3 ticks, an old transport whose close() takes 2-4 ticks (requests '
        'issued 0-3 ticks after the reconnect request fall before, into or after that window), a client writer that stopped draining (pending requests still '
        'queued when the connection ends), lease-honouring clients whose pending requests are waiting for a lease when the '
        'connection ends (the next server grants a fresh lease), a server that is half-way through sending a fragmented '
        'request when the connection ends (the next server starts its ids over and asks again); after every reconnect two probes (a '
        'request-response and a generator-backed stream) are issued. Oracle per reconnect: close() was called on the old '
        'transport; every request pending on the old connection ended with an error; the first frame on the new transport '
        'is a fresh SETUP (exactly one); the first request on it uses stream id 1; respond-flagged KEEPALIVEs appear on it '
        'at period P; both probes are answered with their scripted payloads; a structural summary of the client object '
        '(every instance attribute: scalars by value, containers by size, tasks / futures / events by state, the stream '
        'table, queues, lease objects and reassembly cache one level down) taken after a reconnect and before new traffic '
        'equals the one taken right after the first connect. In a fifth of the histories a reconnect is requested once or '
        'twice while the very first connect() is still waiting for its transport\'s handshake (the first connection has to '
        'come up as usual, with one SETUP). Non-trivial = a reconnect caused by a '
        'keepalive timeout or with requests pending, or >= 2 consecutive reconnects; distinct = case hash.')
ASSUMPTIONS = ['a silent server is modelled by a link that drops everything written from a given moment on',
               'virtual clock for keepalive timing']


@st.composite
def cases(draw):
    mode = draw(st.sampled_from(['program', 'program', 'on_close', 'on_ka_timeout']))
    n = draw(st.integers(1, 4))
    endings = []
    for i in range(n):
        if mode == 'on_close':
            kind = draw(st.sampled_from(['eof', 'error', 'etimedout', 'ehostunreach']))
        elif mode == 'on_ka_timeout':
            kind = 'ka_timeout'
        else:
            kind = draw(st.sampled_from(['eof', 'error', 'etimedout', 'ehostunreach', 'ka_timeout', 'explicit', 'explicit']))
        pending = draw(st.lists(st.sampled_from(['rr', 'rr', 'st', 'ch', 'fnf']), max_size=4))
        endings.append({'kind': kind, 'pending': pending, 'ticks_before': draw(st.integers(0, 4)),
                        'during': draw(st.sampled_from([None, None, 'rr', 'rr2', 'rr3'])),
                        # issued in the same turn as the reconnect request (before connect() runs) or one turn later
                        'during_tick': draw(st.sampled_from([0, 0, 1, 2, 3])),
                        # the old transport's close() takes a few loop iterations (requests can be issued meanwhile)
                        'close_ticks': draw(st.sampled_from([0, 0, 2, 4])),
                        'provider_delay': draw(st.sampled_from([0, 0, 2, 5])),
                        # the next transport's own connect() (a handshake) takes a few loop iterations
                        'connect_suspend': draw(st.sampled_from([None, None, 1, 2, 3])),
                        # the client's writer stops draining before the pending requests are issued: they are still in
                        # the send queue when the connection ends
                        'block_sender': draw(st.sampled_from([False, False, True])),
                        # the server is in the middle of sending a fragmented request to the client when the connection ends
                        # (True: a request of its own; 'element': an element of a channel the client opened, whose outbound
                        # half is still open)
                        'server_partial': draw(st.sampled_from([False, False, True, 'element'])),
                        'ticks_after': draw(st.integers(1, 5))})
    lease = draw(st.integers(0, 3)) == 0
    if lease:
        for e in endings:
            # the current lease is used up before the pending requests are issued: they wait for a lease when the connection ends
            e['starve'] = draw(st.booleans())
    P = draw(st.sampled_from([100, 250, 500]))
    L = draw(st.sampled_from([1000, 1500, 3000]))
    frag = draw(st.sampled_from([None, None, 64]))
    for e in endings:
        if e['kind'] == 'ka_timeout' or frag is None or lease:
            e['server_partial'] = False
        if e['server_partial'] == 'element' and 'ch' not in e['pending']:
            e['pending'] = e['pending'] + ['ch']
    case = {'mode': mode, 'endings': endings, 'P_ms': P, 'L_ms': L, 'msg': draw(st.booleans()),
            'frag': frag, 'lease': lease}
    if lease and draw(st.booleans()):
        # the client grants leases too: its publisher has one ready on every subscription, i.e. for every connection
        case['client_grants'] = True
    if not lease and draw(st.integers(0, 4)) == 0:
        # somebody (a supervisor, a network-change hook) asks for a reconnect while the very first connect() is still waiting for
        # its transport's handshake: there is nothing to reconnect yet, the first connection has to come up as usual
        case['early_reconnect'] = {'connect_ticks': draw(st.sampled_from([2, 5, 30, 60])), 'at': draw(st.sampled_from([0, 1, 2])),
                                   'times': draw(st.sampled_from([1, 1, 2]))}
    return case


def pending_spec(k):
    spec = {'k': k, 'side': 'c', 'req': [5, 1]}
    if k == 'rr':
        spec['resp'] = {'mode': 'manual', 'p': [3, 0]}
    if k in ('st', 'ch'):
        spec['src'] = {'kind': 'manual', 'els': [[4, 0]] * 3, 'end': 'sep'}
        spec['sub'] = {'n0': 2, 'refill': 0}
    if k == 'ch':
        spec['rsrc'] = {'kind': 'manual', 'els': [[4, 0]] * 2, 'end': 'sep'}
        spec['rsub'] = {'n0': 2, 'refill': 0}
    return spec


def build(case):
    P, L = case['P_ms'], case['L_ms']
    cfg = {'msg': case['msg'], 'frag': [case['frag'], case['frag']], 'rbuf': [64, 64], 'ka': P / 1000.0, 'life': L / 1000.0,
           'transports': len(case['endings']) + 1,
           'provider_delay': [0] + [e.get('provider_delay', 0) for e in case['endings']],
           'close_ticks': [e.get('close_ticks', 0) for e in case['endings']] + [0],
           # (not combined with requests issued during the reconnect: that schedule is the D13 finding of C16)
           'connect': [None] + [['ticks', e['connect_suspend']] if e.get('connect_suspend') and not e.get('during') else None
                                for e in case['endings']]}
    if case.get('client_grants'):
        cfg['client_lease_publisher'] = 'eager'
    if case['mode'] == 'on_close':
        cfg['on_close_reconnect'] = True
    if case['mode'] == 'on_ka_timeout':
        cfg['on_ka_timeout'] = 'reconnect'
    inter = []
    ops = [['tick', 3], ['settle'], ['snap', 'c', 'fresh']]
    er = case.get('early_reconnect')
    if er:
        cfg['connect_async'] = True
        # (the handshake outlasts all the early requests: a request after the first connect has finished is an ordinary reconnect)
        cfg['connect'][0] = ['ticks', er['connect_ticks'] + er['at'] + 2 * er.get('times', 1) + 2]
        pre = [['tick', er['at']]] if er['at'] else []
        for _ in range(er.get('times', 1)):
            pre += [['reconnect'], ['tick', 1]]
        ops = pre + [['await_connect']] + ops
    GRANT = ['lease', 100000, 100000000]
    if case.get('lease'):
        cfg['lease'] = {'queue': 0}
        ops += [GRANT, ['settle']]
    plan = []  # per connection: dict(pending uids, probe uids)
    cur = {'pending': [], 'probes': [], 'during': []}

    def add_probes():
        inter.append({'k': 'rr', 'side': 'c', 'req': [6, 2], 'resp': {'mode': 'now', 'p': [9, 3]}})
        cur['probes'].append(len(inter) - 1)
        ops.append(['start'])
        inter.append({'k': 'st', 'side': 'c', 'req': [3, 0], 'src': {'kind': 'gen', 'els': [[20, 0], [0, 7]], 'end': 'sep'},
                      'sub': {'n0': gen.MAXN, 'refill': 0}})
        cur['probes'].append(len(inter) - 1)
        ops.append(['start'])
        if plan and any(e.get('server_partial') for e in case['endings']):
            # the (fresh) server asks the client something as well: its stream ids start over too
            for _ in range(2):  # two, so that the ids used on the previous connection come round again
                inter.append({'k': 'rr', 'side': 's', 'req': [100, 2], 'resp': {'mode': 'now', 'p': [9, 3]}})
                cur['probes'].append(len(inter) - 1)
                ops.append(['start'])
        if plan and any(e.get('server_partial') == 'element' for e in case['endings']):
            # ... and the client asks a few more things, with answers that need reassembly, on the ids its pending
            # interactions had on the previous connection
            for _ in range(4):
                inter.append({'k': 'rr', 'side': 'c', 'req': [7, 1], 'resp': {'mode': 'now', 'p': [100, 20]}})
                cur['probes'].append(len(inter) - 1)
                ops.append(['start'])
        ops.append(['settle'])

    add_probes()
    for e in case['endings']:
        if case.get('lease') and e.get('starve'):
            ops += [['lease', 0, 100000000], ['settle']]
        if e.get('block_sender'):
            ops.append(['block', 'c'])
        for k in e['pending']:
            inter.append(pending_spec(k))
            cur['pending'].append(len(inter) - 1)
            ops.append(['start'])
        ops.append(['tick', e['ticks_before']])
        if e.get('server_partial') == 'element':
            uid = next(u for u in cur['pending'] if inter[u]['k'] == 'ch')
            inter[uid]['src'] = {'kind': 'manual', 'els': [[300, 40]] * 3, 'end': 'sep'}
            ops += [['settle'], ['regime', 'manual'], ['emit', uid, 'resp', 1], ['tick', 2],
                    ['deliver', 's', 2 if case['msg'] else 150], ['tick', 2]]
        elif e.get('server_partial'):
            inter.append({'k': 'rr', 'side': 's', 'req': [300, 0], 'resp': {'mode': 'now', 'p': [4, 0]}})
            ops += [['settle'], ['regime', 'manual'], ['start'], ['tick', 2], ['deliver', 's', 2 if case['msg'] else 150], ['tick', 2]]
        ops.append(['mark', 'ending'])
        kind = e['kind']
        if kind in ('eof', 'error', 'etimedout', 'ehostunreach'):
            ops.append(['cut', kind])
        elif kind == 'ka_timeout':
            ops.append(['blackhole', 's'])
            ops.append(['adv', 2.3 * L])
        if kind == 'explicit' or case['mode'] == 'program':
            if kind != 'explicit':
                ops.append(['tick', e['ticks_after']])
            ops.append(['reconnect'])
        if e['during']:
            # requests issued while the reconnect is in progress (the provider may take a while to deliver a transport)
            if e.get('during_tick'):
                ops.append(['tick', e['during_tick']])
            for _ in range({'rr': 1, 'rr2': 2, 'rr3': 3}[e['during']]):
                inter.append({'k': 'rr', 'side': 'c', 'req': [2, 2], 'resp': {'mode': 'now', 'p': [4, 4]}})
                cur['during'].append(len(inter) - 1)
                ops.append(['start'])
        if e.get('server_partial'):
            ops.append(['regime', 'pumped'])
        ops += [['tick', 6], ['settle']]
        if not e['during']:
            ops.append(['snap', 'c', 'reconnected:%d' % len(plan)])
        if case.get('lease'):
            ops += [GRANT, ['settle']]  # the new server grants a lease of its own
        ops += [['mark', 'reconnected']]
        # the application's publishers of the failed channels were told to stop; one that was not would go on producing
        for uid in cur['pending']:
            if inter[uid]['k'] == 'ch':
                ops += [['emit', uid, 'req', 2], ['tick', 2]]
        plan.append(cur)
        cur = {'pending': [], 'probes': [], 'during': []}
        add_probes()
        ops += [['adv', 2.5 * P], ['tick', 2], ['settle']]
    plan.append(cur)
    return {'cfg': cfg, 'inter': inter, 'ops': ops, 'heal': False}, plan


def judge(case):
    prog, plan = build(case)
    try:
        tr = run_program(prog, timeout=20 if case.get('early_reconnect') else None)
    except common.CaseTimeout:
        return [viol('reconnect_does_not_terminate', 'C17:stuck', mode=case['mode'], early_reconnect=case.get('early_reconnect'))], \
            True, ['mode=' + case['mode'], 'stuck']
    out = []
    log = tr.world.log
    P = case['P_ms'] / 1000.0
    nconn = len(case['endings']) + 1
    sends = tr.world.wire.get('c', [])
    opened = [e['cx'] for e in log if e['ev'] == 'provider_yield']
    for i, e in enumerate(case['endings']):
        facts = dict(reconnect=i, ending=e['kind'], mode=case['mode'])
        new = i + 1
        if new not in opened:
            out.append(viol('no_new_transport_taken', 'C17:no_new_transport:%s' % e['kind'], **facts))
            continue
        if not any(x['ev'] == 'transport_close_call' and x['side'] == 'c' and x.get('cx') == i for x in log):
            out.append(viol('old_transport_not_closed', 'C17:old_not_closed:%s' % e['kind'], **facts))
        # requests pending on the old connection
        for uid in plan[i]['pending']:
            spec = prog['inter'][uid]
            evs = [x for x in log if x.get('uid') == uid]
            if spec['k'] == 'rr':
                if not any(x['ev'] in ('rr_error', 'rr_cancelled') for x in evs):
                    out.append(viol('pending_request_not_failed', 'C17:pending_not_failed:rr:%s' % e['kind'], uid=uid, **facts))
                if any(x['ev'] == 'rr_result' for x in evs):
                    out.append(viol('pending_request_got_result', 'C17:pending_got_result', uid=uid, **facts))
            elif spec['k'] in ('st', 'ch'):
                if not any(x['ev'] == 'on_error' and x['side'] == 'c' and x['dir'] == 'resp' for x in evs):
                    out.append(viol('pending_subscriber_not_failed', 'C17:pending_not_failed:%s:%s' % (spec['k'], e['kind']),
                                    uid=uid, **facts))
        frames = [x for x in sends if x.get('cx') == new]
        if case.get('client_grants') and not any(x['f']['type'] == 'LEASE' for x in frames):
            out.append(viol('lease_not_granted_on_new_connection', 'C17:no_lease_granted:%s' % e['kind'], **facts))
        opened_here = set()
        for x in frames:
            f = x['f']
            if f['type'] in monitors.REQ_TYPES:
                opened_here.add(f['sid'])
            elif f['sid'] and f['sid'] % 2 == 1 and f['sid'] not in opened_here:
                out.append(viol('frame_of_previous_connection_on_new_one', 'C17:stale_frame:%s' % f['type'], sid=f['sid'], **facts))
                break
        if not frames:
            out.append(viol('nothing_sent_on_new_transport', 'C17:nothing_sent:%s' % e['kind'], **facts))
            continue
        if frames[0]['f']['type'] != 'SETUP':
            out.append(viol('setup_not_first_after_reconnect', 'C17:setup_not_first', first=frames[0]['f']['type'], **facts))
        nsetup = sum(1 for x in frames if x['f']['type'] == 'SETUP')
        if nsetup != 1:
            out.append(viol('setup_count_after_reconnect', 'C17:setup_count:%d' % nsetup, **facts))
        reqs = [x for x in frames if x['f']['type'] in monitors.REQ_TYPES]
        ids = [x['f']['sid'] for x in reqs]
        if ids != sorted(ids):
            out.append(viol('requests_reordered_after_reconnect', 'C17:request_order', ids=ids[:10], **facts))
        if reqs and reqs[0]['f']['sid'] != 1:
            out.append(viol('stream_ids_not_restarted', 'C17:first_stream_id', sid=reqs[0]['f']['sid'], **facts))
        kas = [x for x in frames if x['f']['type'] == 'KEEPALIVE' and x['f'].get('respond')]
        is_last = new == nconn - 1
        # the connection lives at least 2.5 P after the probes unless the next ending comes first
        if not kas:
            out.append(viol('keepalives_not_restarted', 'C17:no_keepalive:%s' % e['kind'], **facts))
        else:
            t0 = next((x['t'] for x in log if x['ev'] == 'transport_connect_end' and x.get('cx') == new), None)
            if t0 is not None and abs((kas[0]['t'] - t0) - P) > 1e-6:
                out.append(viol('keepalive_period_after_reconnect', 'C17:keepalive_period', first_after_ms=round((kas[0]['t'] - t0) * 1000, 3),
                                P_ms=case['P_ms'], **facts))
    # probes on every connection (also the first) and requests issued during a reconnect
    probe_uids = [u for p in plan for u in p['probes']]
    skip = set(range(len(prog['inter']))) - set(probe_uids)
    for v in monitors.mon_delivery(tr, PID, require_complete=False, skip_uids=skip):
        out.append(v)
    for ci, p in enumerate(plan):
        for uid in p['probes'] + p['during']:
            if uid not in tr.scn.st:
                continue
            spec = prog['inter'][uid]
            evs = [x for x in log if x.get('uid') == uid]
            # a probe of connection ci that was overtaken by the next ending is a pending request of that connection
            if spec['k'] == 'rr':
                if uid in p['during']:
                    # issued right after reconnect() was requested: it may still belong to the old connection (then it
                    # is failed with it) or be served by the new one - it must not be left hanging
                    if not any(x['ev'] in ('rr_result', 'rr_error', 'rr_cancelled') for x in evs) and not tr.scn.st[uid].get('issue_raised'):
                        out.append(viol('request_during_reconnect_left_hanging', 'C17:during_hanging', uid=uid, connection=ci,
                                        mode=case['mode']))
                    continue
                if not any(x['ev'] == 'rr_result' for x in evs):
                    which = 'during' if uid in p['during'] else 'probe'
                    out.append(viol('probe_not_answered', 'C17:%s_not_answered:rr' % which, uid=uid, connection=ci,
                                    got=[x['ev'] for x in evs if x['ev'].startswith('rr_')], mode=case['mode'],
                                    ending=case['endings'][ci - 1]['kind'] if ci else None))
            else:
                got = [x for x in evs if x['ev'] == 'on_next' and x['side'] == 'c']
                if len(got) < 2 or not any(x['ev'] in ('on_complete',) or (x['ev'] == 'on_next' and x.get('complete')) for x in evs):
                    out.append(viol('probe_not_answered', 'C17:probe_not_answered:st', uid=uid, connection=ci, n=len(got),
                                    mode=case['mode'], ending=case['endings'][ci - 1]['kind'] if ci else None))
    # a reconnected client that has not been used yet looks like a freshly connected one, attribute for attribute
    snaps = {x['label']: x['state'] for x in log if x['ev'] == 'state_snapshot'}
    fresh = snaps.get('fresh')

    def diff(a, b, path, acc):
        if isinstance(a, dict) and isinstance(b, dict):
            for k in sorted(set(a) | set(b)):
                diff(a.get(k, '<missing>'), b.get(k, '<missing>'), path + '.' + k, acc)
        elif a != b:
            acc.append((path, a, b))

    for label, state in sorted(snaps.items()):
        if label == 'fresh' or fresh is None:
            continue
        acc = []
        diff(fresh, state, '', acc)
        if acc:
            out.append(viol('state_not_reset_by_reconnect', 'C17:state_not_reset:%s' % acc[0][0].lstrip('.'), snapshot=label,
                            differences=[[p_, repr(a)[:60], repr(b)[:60]] for p_, a, b in acc[:6]], mode=case['mode']))
            break
    # nothing of an earlier connection may survive in the receive-side state of the client
    fin = tr.final.get('c', {})
    if fin.get('frags'):
        out.append(viol('partial_frame_of_previous_connection_kept', 'C17:stale_partial_frame', sids=fin['frags'], mode=case['mode']))
    for err in tr.loop_errors:
        out.append(viol('unhandled_exception', 'C17:loop_error:%s' % err.get('type'), **err))
    nt = any(e['kind'] == 'ka_timeout' or e['pending'] for e in case['endings']) or len(case['endings']) >= 2
    classes = ['mode=' + case['mode'], 'reconnects=%d' % len(case['endings']),
               'reconnect_requested_during_first_connect=%s' % bool(case.get('early_reconnect'))] + \
        sorted(set('ending=' + e['kind'] for e in case['endings']))
    return out, nt, classes


info = {}


def prop(case):
    vs, nt, classes = judge(case)
    info['nt'], info['classes'] = nt, classes
    return vs


def classify(case, vs):
    return info['nt'], info['classes'], None


REGRESSION = [
    # D6: reconnect after a keepalive timeout
    {'mode': 'on_ka_timeout', 'endings': [{'kind': 'ka_timeout', 'pending': ['rr'], 'ticks_before': 1, 'during': None, 'ticks_after': 2}],
     'P_ms': 250, 'L_ms': 1000, 'msg': False, 'frag': None},
    {'mode': 'program', 'endings': [{'kind': 'ka_timeout', 'pending': [], 'ticks_before': 0, 'during': None, 'ticks_after': 2},
                                    {'kind': 'explicit', 'pending': ['st'], 'ticks_before': 2, 'during': None, 'ticks_after': 1}],
     'P_ms': 500, 'L_ms': 1500, 'msg': True, 'frag': 64},
]


def shard(tier, seed, n):
    common.use_repo()
    stats = common.Stats()
    known = common.Known(PID)
    if n is None:
        for c in REGRESSION:
            vs = prop(c)
            stats.case(c, True, ['regression'])
            for v in common.judge(stats, known, c, vs):
                stats.violations.append((v, c))
        return stats
    common.hyp_search(stats, known, cases(), prop, n, seed, classify=classify)
    return stats


def run(tier, seed):
    t0 = time.time()
    total = 6400 if tier == 'quick' else 60000
    jobs = [dict(tier=tier, seed=0, n=None)] + [dict(tier=tier, seed=s, n=total // common.NPROC)
                                                  for s in common.shard_seeds(seed, common.NPROC)]
    stats = common.run_shards(__name__, 'shard', jobs)
    return common.finish(PID, tier, seed, LEVEL, RULE, stats, t0, ASSUMPTIONS)


def replay(path):
    common.use_repo()
    return common.report_replay(PID, path, prop(common.load_replay(path)))
