"""C07 Every interaction terminates at most once at the API (Engine C exhaustive to a bound + Engine B random)."""
import itertools
import time

from hypothesis import strategies as st

from harness import common, gen, monitors
from harness.common import viol
from harness.programs import run_program

PID = 'C07'
LEVEL = 'exploration'
RULE = ('(1) Exhaustive: for each stream-carrying model (request-response, stream, channel, channel on which the real endpoint has no publisher) x role of the real endpoint '
        '(requester / responder) x endpoint kind (client / server), every sequence up to length L over the alphabet '
        '{protocol-legal peer frames from a harness-scripted raw peer: PAYLOAD(next), PAYLOAD(next|complete), '
        'PAYLOAD(complete), ERROR, ERROR with data that is not UTF-8 text, REQUEST_N, CANCEL where the peer\'s role has it} + {local actions: request(n), cancel, '
        'emit element, complete, fail, resolve / fail the handler future} + {connection events: EOF, transport error, '
        'local close()} (the raw peer never sends after its own terminal frame; at most one connection event). '
        '(2) Random: Hypothesis SimNet programs with two real endpoints, all endings, fragmentation, followed by a '
        'connection loss or close at a generated point. Oracle: every recording subscriber sees on_subscribe first, then '
        'elements, then at most one terminal signal (on_complete | on_error | element flagged complete) and nothing '
        'after it; every request-response awaitable has exactly one outcome and no second resolution was attempted (no '
        'InvalidStateError in the loop handler or as an ERROR frame); after a connection event or a terminal frame the '
        'awaitable is done (for subscribers the statement says at most one terminal signal: a subscriber left without one is '
        'C11\'s matter, not judged here). (3) The C17 reconnect histories: every request-response awaitable of the run has exactly one '
        'outcome at the end, whichever connection it was issued on or between. Non-trivial = the sequence has a terminal event followed by a further event on that '
        'stream; distinct = distinct sequence / program hash.')
ASSUMPTIONS = ['raw peer frames are encoded with the reference codec', 'recording subscribers never act after a terminal signal']

OTHER = {'c': 's', 's': 'c'}


def alphabet(k, role):
    """(symbols, is_peer_terminal, is_conn) for the real endpoint in `role`."""
    conn = [('x', 'eof'), ('x', 'error'), ('x', 'close')]
    if k == 'chn':
        # a channel on which the real endpoint has no publisher of its own (request_channel(payload) without a publisher: the
        # request frame carries COMPLETE; a handler returning (None, subscriber)): only the inbound direction lives
        inbound = 'resp' if role == 'requester' else 'req'
        return [('p', 'next'), ('p', 'next_complete'), ('p', 'complete'), ('p', 'error'), ('p', 'request_n'), ('p', 'cancel'),
                ('l', 'req', inbound), ('l', 'cancel', inbound)] + conn
    if role == 'requester':
        if k == 'rr':
            return [('p', 'next_complete'), ('p', 'error'), ('p', 'error_bin'), ('l', 'cancel', 'resp')] + conn
        if k == 'st':
            return [('p', 'next'), ('p', 'next_complete'), ('p', 'complete'), ('p', 'error'), ('p', 'error_bin'),
                    ('l', 'req', 'resp'), ('l', 'cancel', 'resp')] + conn
        return [('p', 'next'), ('p', 'next_complete'), ('p', 'complete'), ('p', 'error'), ('p', 'request_n'), ('p', 'cancel'),
                ('l', 'req', 'resp'), ('l', 'cancel', 'resp'), ('l', 'emit', 'req'), ('l', 'end', 'req'),
                ('l', 'fail', 'req')] + conn
    if k == 'rr':
        return [('p', 'cancel'), ('l', 'resolve'), ('l', 'failfut')] + conn
    if k == 'st':
        return [('p', 'request_n'), ('p', 'cancel'), ('l', 'emit', 'resp'), ('l', 'end', 'resp'), ('l', 'fail', 'resp')] + conn
    return [('p', 'next'), ('p', 'next_complete'), ('p', 'complete'), ('p', 'error'), ('p', 'request_n'), ('p', 'cancel'),
            ('l', 'emit', 'resp'), ('l', 'end', 'resp'), ('l', 'fail', 'resp'), ('l', 'req', 'req'), ('l', 'cancel', 'req')] + conn


def legal_sequences(k, role, depth):
    """All sequences up to `depth` in which the raw peer is protocol-legal and at most one connection event occurs."""
    syms = alphabet(k, role)

    def rec(prefix, peer_closed, peer_dead, conn_done):
        if prefix:
            yield list(prefix)
        if len(prefix) >= depth:
            return
        for s in syms:
            if s[0] == 'x':
                if conn_done:
                    continue
                yield from rec(prefix + [s], peer_closed, peer_dead, True)
            elif s[0] == 'p':
                if conn_done or peer_dead:
                    continue
                kind = s[1]
                if kind in ('next', 'next_complete', 'complete') and peer_closed:
                    continue
                if kind in ('error', 'error_bin'):
                    yield from rec(prefix + [s], True, True, conn_done)
                elif kind == 'cancel':
                    # requester CANCEL ends the raw peer's part entirely; responder CANCEL (channel) only stops inbound
                    yield from rec(prefix + [s], peer_closed, role == 'responder', conn_done)
                elif kind in ('next_complete', 'complete'):
                    yield from rec(prefix + [s], True, k == 'rr' or (k == 'st'), conn_done)
                else:
                    yield from rec(prefix + [s], peer_closed, peer_dead, conn_done)
            else:
                yield from rec(prefix + [s], peer_closed, peer_dead, conn_done)

    return rec([], False, False, False)


def build(real, k, role, seq, msg=False, frag=None, tight=False):
    raw = OTHER[real]
    req_side = real if role == 'requester' else raw
    nopub = k == 'chn'
    if nopub:
        k = 'ch'
    spec = {'k': k, 'side': req_side, 'req': [3, 0]}
    if k == 'rr':
        spec['resp'] = {'mode': 'manual', 'p': [5, 0]}
    if k in ('st', 'ch'):
        spec['src'] = {'kind': 'manual', 'els': [[4, 0]] * 4, 'end': 'sep'}
        spec['sub'] = {'n0': 2, 'refill': 0}
    if k == 'ch':
        spec['rsrc'] = {'kind': 'manual', 'els': [[4, 0]] * 4, 'end': 'sep'}
        spec['rsub'] = {'n0': 2, 'refill': 0}
    if nopub:
        spec['rsrc' if role == 'requester' else 'src'] = None
    ops = [['start'], ['tick', 3]]
    if tight:
        # no loop iteration between consecutive symbols: a peer frame is fed to the endpoint's reader and the next
        # local action happens before its receiver task runs (the races a spaced schedule never produces)
        ops.append(['regime', 'manual'])
    for s in seq:
        if s[0] == 'p':
            arg = 2 if s[1] == 'request_n' else None
            if s[1] == 'error_bin':
                # an ERROR whose data is not UTF-8 text (binary error details; alternately the two kinds of error code)
                ops.append(['rawf', 0, 'error', 'bin' if len(seq) % 2 else 'bin_rejected'])
            else:
                ops.append(['rawf', 0, s[1], arg])
            if tight:
                ops.append(['deliver', raw, None])
                continue
        elif s[0] == 'x':
            ops.append(['cut', s[1]] if s[1] != 'close' else ['close', real])
        else:
            name = s[1]
            if name in ('resolve', 'failfut'):
                ops.append([name, 0])
            elif name == 'req':
                ops.append(['req', 0, s[2], 2])
            elif name == 'emit':
                ops.append(['emit', 0, s[2], 1])
            else:
                ops.append([name, 0, s[2]])
        if not tight:
            ops.append(['tick', 2])
    if tight:
        ops.append(['regime', 'pumped'])
    ops.append(['tick', 4])
    return {'cfg': {'msg': msg, 'frag': [frag, frag], 'rbuf': [1024, 1024], 'raw': raw}, 'inter': [spec], 'ops': ops,
            'heal': False}


def seq_nontrivial(seq):
    term = None
    for i, s in enumerate(seq):
        t = (s[0] == 'x') or (s[0] == 'p' and s[1] in ('next_complete', 'complete', 'error', 'error_bin', 'cancel')) or \
            (s[0] == 'l' and s[1] in ('cancel', 'end', 'fail', 'resolve', 'failfut'))
        if term is not None:
            return True
        if t:
            term = i
    return False


def judge_trace(tr, had_end_event):
    vs = monitors.mon_terminal_once(tr, PID, require_done=had_end_event)
    return vs


def enum_shard(tier, seed, real, k, role, depth, part, parts, tight=False):
    common.use_repo()
    stats = common.Stats()
    known = common.Known(PID)
    n = 0
    for idx, seq in enumerate(legal_sequences(k, role, depth)):
        if idx % parts != part:
            continue
        prog = build(real, k, role, seq, msg=(idx % 5 == 4), tight=tight)
        tr = run_program(prog)
        end_event = any(s[0] == 'x' for s in seq) or (role == 'requester' and any(
            s[0] == 'p' and s[1] in ('next_complete', 'error', 'error_bin') for s in seq))
        vs = judge_trace(tr, end_event and k == 'rr' and role == 'requester')
        n += 1
        nt = seq_nontrivial(seq)
        stats.evaluations += 1
        if nt:
            stats.nontrivial.add(hash((real, k, role, tight, tuple(seq))))
            if len(stats.samples) < 1 and len(seq) == depth:
                stats.samples.append({'real': real, 'model': k, 'role': role, 'sequence': [list(s) for s in seq]})
        case = dict(prog, enum={'real': real, 'k': k, 'role': role, 'seq': [list(s) for s in seq]})
        for v in common.judge(stats, known, case, vs):
            if not any(v['sig'] == vv['sig'] for vv, _ in stats.violations):
                stats.violations.append((v, case))
    stats.classes['enumerated:%s:%s:%s:%s:depth<=%d' % (real, k, role, 'tight' if tight else 'spaced', depth)] += n
    stats.exhaustive = True
    return stats


@st.composite
def random_programs(draw):
    from harness.checks import c10
    p = draw(c10.programs())
    ops = list(p['ops'])
    fault = draw(st.sampled_from([['cut', 'eof'], ['cut', 'error'], ['cut', 'etimedout'], ['cut', 'ehostunreach'], ['close', 'c'],
                                  ['close', 's'], None]))
    if fault is not None:
        pos = draw(st.integers(0, len(ops)))
        ops = ops[:pos] + [fault, ['tick', 3]] + ops[pos:]
    inter = [dict(i) for i in p['inter']]
    retriers = [i for i, sp in enumerate(inter) if sp['k'] in ('st', 'ch') and sp['side'] == 'c']
    if fault is not None and fault[0] == 'cut' and draw(st.booleans()):
        # the application keeps issuing requests on the dead connection and closes the endpoint later
        side = draw(st.sampled_from(['c', 's']))
        ops = ops + [['tick', 3], ['settle'], ['close', side], ['tick', 3], ['settle']]
    elif retriers and fault is not None and fault[0] == 'cut' and draw(st.booleans()):
        # an application that falls back to another request from inside on_error, and closes the client later
        i = draw(st.sampled_from(retriers))
        inter.append({'k': 'rr', 'side': 'c', 'req': [4, 1], 'resp': {'mode': 'manual', 'p': [3, 0]}})
        inter[i]['sub'] = dict(inter[i].get('sub') or {}, on_error_start=len(inter) - 1)
        nstart = sum(1 for o in ops if o[0] == 'start')
        ops = ops + [['tick', 3], ['settle'], ['close', 'c'], ['tick', 3], ['settle']]
        # the retry target must not be started by the program itself
        extra = nstart - (len(inter) - 1)
        if extra > 0:
            seen = 0
            kept = []
            for o in ops:
                if o[0] == 'start':
                    seen += 1
                    if seen > len(inter) - 1:
                        continue
                kept.append(o)
            ops = kept
    cold = [i for i, sp in enumerate(inter) if sp['k'] in ('st', 'ch') and not (sp.get('sub') or {}).get('on_error_start')]
    if cold and draw(st.integers(0, 2)) == 0:
        # a cold publisher: request_stream()/request_channel() registers the stream, the application subscribes later or never
        i = draw(st.sampled_from(cold))
        inter[i] = dict(inter[i], late_subscribe=True)
        if draw(st.booleans()):
            pos = draw(st.integers(0, len(ops)))
            ops = ops[:pos] + [['subscribe', i]] + ops[pos:]
    if fault is not None:
        ops = ops + [['tick', 4], ['settle']]  # let both ends notice the end of the connection before the run is judged
    p = dict(p, ops=ops, inter=inter)
    p['cfg'] = dict(p['cfg'], idmask=None)
    if fault is not None and not any((sp.get('sub') or {}).get('on_error_start') is not None for sp in inter) and \
            draw(st.integers(0, 2)) == 0:
        # the application's close notification waits until its outstanding request-responses have their outcome (or sleeps)
        p['cfg']['on_close_waits'] = draw(st.sampled_from(['pending', 'pending', 0.3]))
        p['ops'] = p['ops'] + [['adv', 500], ['tick', 3], ['settle']]
    return p


info = {}


def prop(program):
    tr = run_program(program)
    vs = monitors.mon_terminal_once(tr, PID)
    # "exactly once" also excludes zero: an interaction started before an explicit close() must have its outcome by then
    vs += [v for v in monitors.mon_connection_loss(tr, PID) if 'hanging_after_close' in v['sig'] or v['sig'].endswith(':hanging:rr')]
    ops = program['ops']
    fault_at = next((i for i, o in enumerate(ops) if o[0] in ('cut', 'close')), None)
    info['nt'] = fault_at is not None and fault_at < len(ops) - 2 or any(o[0] in ('cancel', 'end', 'fail') for o in ops)
    info['classes'] = ['fault=%s' % (ops[fault_at][0] + ':' + ops[fault_at][1] if fault_at is not None else 'none'),
                       'framing=' + ('message' if program['cfg']['msg'] else 'bytes')]
    return vs


def reconnect_prop(wrapped):
    """C17's reconnect histories under C07's rule: every request-response awaitable of the run - pending when a connection
    ended, issued while the reconnect was in progress (also while the old transport was still closing), or a probe on the new
    connection - has exactly one outcome at the end, and no subscriber is signalled twice."""
    from harness.checks import c17
    case = wrapped['reconnect']
    prog, plan = c17.build(case)
    tr = run_program(prog)
    vs = monitors.mon_terminal_once(tr, PID)
    for uid in tr.scn.started:
        st_ = tr.scn.st[uid]
        if st_['spec']['k'] != 'rr' or st_.get('issue_raised'):
            continue
        outcomes = [e['ev'] for e in tr.world.log if e.get('uid') == uid and e['ev'] in ('rr_result', 'rr_error', 'rr_cancelled')]
        if len(outcomes) != 1:
            vs.append(viol('request_response_outcomes', '%s:outcomes_%d:rr:reconnect' % (PID, min(len(outcomes), 2)), uid=uid,
                           outcomes=outcomes, endings=[e['kind'] for e in case['endings']], mode=case['mode']))
    info['nt'] = any(e['during'] or e['pending'] for e in case['endings'])
    info['classes'] = ['part=reconnect', 'reconnects=%d' % len(case['endings'])]
    return vs


def classify(case, vs):
    return info.get('nt', False), info.get('classes', ()), None


REGRESSION = [
    # D10: channel inbound completed, connection lost while the outbound direction is still open
    build('c', 'ch', 'requester', [('p', 'complete'), ('x', 'eof')]),
    build('c', 'ch', 'requester', [('p', 'next_complete'), ('x', 'error')]),
    # D9: response fed to the reader, cancel before the receiver runs
    build('c', 'rr', 'requester', [('p', 'next_complete'), ('l', 'cancel', 'resp')], tight=True),
]


def hyp_shard(tier, seed, n, reconnect=False):
    common.use_repo()
    stats = common.Stats()
    known = common.Known(PID)
    if n is None:
        for p in REGRESSION:
            tr = run_program(p)
            vs = monitors.mon_terminal_once(tr, PID)
            stats.case(p, True, ['regression'])
            for v in common.judge(stats, known, p, vs):
                stats.violations.append((v, p))
        return stats
    if reconnect:
        from harness.checks import c17
        common.hyp_search(stats, known, c17.cases().map(lambda c: {'reconnect': c}), reconnect_prop, n, seed, classify=classify,
                          shrink=True)
        return stats
    common.hyp_search(stats, known, random_programs(), prop, n, seed, classify=classify, shrink=True)
    return stats


def run(tier, seed):
    t0 = time.time()
    depth = 3 if tier == 'quick' else 5
    jobs = [('hyp_shard', dict(tier=tier, seed=0, n=None))]
    for real in ('c', 's'):
        for k in ('rr', 'st', 'ch', 'chn'):
            for role in ('requester', 'responder'):
                d = depth + (1 if k not in ('ch', 'chn') else 0)
                if k == 'chn':
                    d += 1  # (a smaller alphabet: one symbol deeper for the same cost)
                parts = 1 if tier == 'quick' and k not in ('ch', 'chn') else (4 if tier == 'quick' else (32 if k in ('ch', 'chn') else 4))
                for part in range(parts):
                    jobs.append(('enum_shard', dict(tier=tier, seed=seed, real=real, k=k, role=role, depth=d, part=part,
                                                    parts=parts)))
                    jobs.append(('enum_shard', dict(tier=tier, seed=seed, real=real, k=k, role=role,
                                                    depth=d if k == 'rr' else d - 1, part=part, parts=parts, tight=True)))
    nh = 800 if tier == 'quick' else 40000
    for s in common.shard_seeds(seed, 8):
        jobs.append(('hyp_shard', dict(tier=tier, seed=s, n=nh // 8)))
    for s in common.shard_seeds(seed, 4):
        jobs.append(('hyp_shard', dict(tier=tier, seed=s + 3, n=(400 if tier == 'quick' else 8000) // 4, reconnect=True)))
    stats = common.run_shards_multi(__name__, jobs)
    stats.exhaustive = None
    stats.extra['exhaustive_depth'] = {'channel': depth, 'request-response and stream': depth + 1}
    return common.finish(PID, tier, seed, LEVEL, RULE, stats, t0, ASSUMPTIONS)


def replay(path):
    common.use_repo()
    case = common.load_replay(path)
    if 'enum' in case:
        tr = run_program(case)
        seq = case['enum']['seq']
        end_event = any(s[0] == 'x' for s in seq) or (case['enum']['role'] == 'requester' and any(
            s[0] == 'p' and s[1] in ('next_complete', 'error', 'error_bin') for s in seq))
        vs = judge_trace(tr, end_event and case['enum']['k'] == 'rr' and case['enum']['role'] == 'requester')
        return common.report_replay(PID, path, vs)
    if 'reconnect' in case:
        return common.report_replay(PID, path, reconnect_prop(case))
    return common.report_replay(PID, path, prop(case))
