"""C09 Cancellation stops the stream at both ends (Engine B, DESIGN 3/C09)."""
import time

from hypothesis import strategies as st

from harness import common, gen, monitors
from harness.programs import run_program

PID = 'C09'
LEVEL = 'exploration'
RULE = ('Hypothesis-generated SimNet programs: one to two cancelled interactions (request-response through the '
        'awaitable, stream and channel through Subscription.cancel, also the channel responder cancelling its inbound '
        'direction) among 0-3 bystanders; the cancel moment ranges over: immediately after the request in the same '
        'tick (with manual delivery REQUEST and CANCEL reach the responder in one read), before any credit reached the '
        'producer, after k elements, with elements in flight on the link, in the tick in which the completion becomes '
        'deliverable; producers: StreamFromGenerator, StreamFromAsyncGenerator, Rx3/Rx4 observable publishers, the '
        'recording manual publisher, pending / late handler futures. Oracle: exactly one CANCEL for the stream on the '
        'canceller\'s wire; no callback / result on the canceller after cancel() returned; once the CANCEL was delivered '
        'and the run is quiescent the peer producer was cancelled (publisher saw cancel(), handler future cancelled, '
        'on_cancel fired and the generator\'s finally ran) and yielded nothing after processing it; bystanders satisfy '
        'the C01 delivery oracle. Plus cancellation through the Rx (v3) and ReactiveX (v4) requester adapters: the '
        'result observable of a stream / channel is disposed by the application immediately after subscribe, k ticks '
        'later, or from the observer after j elements, against core and adapter handlers; once the request has left, '
        'exactly one CANCEL follows unless a terminal frame won the race, nothing is delivered after the dispose, and '
        'a back-pressure-aware source on the peer is stopped. Non-trivial = cancel before the first element was delivered, or with an element in '
        'flight, or in the completion tick; distinct = program hash.')
ASSUMPTIONS = ['cancels are issued only while the canceller has not observed a terminal signal',
               'for plain Rx observables (buffered by the adapter) only the wire/subscriber side is observable']

SRC_KINDS = ['gen', 'agen', 'rx3', 'rx4', 'rx3bp', 'rx4bp']


def any_src(frag):
    lib = st.fixed_dictionaries({'kind': st.sampled_from(SRC_KINDS), 'els': st.lists(gen.nonempty_lens(frag, 2), max_size=8),
                                 'end': st.sampled_from(['flag', 'sep']), 'awaits': st.integers(0, 2),
                                 'pace': st.sampled_from([0, 0, 3, 11, 40])})
    # (a manual publisher may also fail: an ERROR that reaches a subscriber which has already cancelled must not be delivered)
    return st.one_of(gen.manual_src(frag, ends=('flag', 'sep', 'error'), max_frags=3), lib, lib)


@st.composite
def programs(draw):
    frag = draw(gen.frag_pair())
    cfg = {'msg': draw(st.booleans()), 'frag': frag, 'rbuf': draw(gen.rbufs())}
    n = draw(st.integers(1, 4))
    inter = []
    for i in range(n):
        side = draw(st.sampled_from(['c', 's']))
        fr_req = frag[0] if side == 'c' else frag[1]
        fr_resp = frag[1] if side == 'c' else frag[0]
        k = draw(st.sampled_from(['rr', 'st', 'st', 'ch', 'ch']))
        spec = {'k': k, 'side': side, 'req': draw(gen.lens(fr_req, 2))}
        if k == 'rr':
            spec['resp'] = {'mode': draw(st.sampled_from(['manual', 'manual', 'late', 'now'])), 'delay': draw(st.integers(1, 20)),
                            'p': draw(gen.lens(fr_resp, 3))}
        else:
            spec['src'] = draw(any_src(fr_resp))
            spec['sub'] = draw(gen.sub_spec(full_credit=False))
            # subscribers go on asking for more after they have cancelled whenever the program says so (Reactive Streams 3.6:
            # legal, to be ignored)
            spec['sub'] = dict(spec['sub'], request_after_cancel=True)
            if spec['src'].get('pace') and draw(st.booleans()):
                # enough credit for a paced source to pull everything at once: what it then holds is a backlog
                spec['sub'] = dict(spec['sub'], n0=gen.MAXN)
        if k == 'ch':
            spec['rsrc'] = draw(st.one_of(st.none(), any_src(fr_req)))
            spec['rsub'] = draw(st.one_of(st.none(), gen.sub_spec(False), gen.sub_spec(False)))
            if spec['rsub'] is not None:
                spec['rsub'] = dict(spec['rsub'], request_after_cancel=True)
        inter.append(spec)
    single = st.one_of(
        st.just(('start',)),
        st.tuples(st.just('cancel'), st.integers(0, 3), st.sampled_from(['resp', 'resp', 'resp', 'req'])),
        st.tuples(st.just('emit'), st.integers(0, 3), st.sampled_from(['resp', 'req']), st.integers(1, 3)),
        st.tuples(st.just('end'), st.integers(0, 3), st.sampled_from(['resp', 'req'])),
        st.tuples(st.just('resolve'), st.integers(0, 3)),
        st.tuples(st.just('req'), st.integers(0, 3), st.sampled_from(['resp', 'req']), st.sampled_from([1, 2, 5, gen.MAXN])),
        st.tuples(st.just('tick'), st.integers(1, 4)),
        st.tuples(st.just('adv'), st.integers(1, 25)),
        st.tuples(st.just('deliver'), st.sampled_from(['c', 's']), st.one_of(st.none(), st.integers(1, 60))),
        st.tuples(st.just('regime'), st.sampled_from(['pumped', 'manual'])),
        st.tuples(st.just('block'), st.sampled_from(['c', 's'])),
        st.tuples(st.just('unblock'), st.sampled_from(['c', 's'])),
    )
    macro = st.one_of(
        # request and cancel reach the responder in one read
        st.sampled_from(['c', 's']).map(lambda s: [('regime', 'manual'), ('start',), ('cancel', -1, 'resp'), ('tick', 2),
                                                   ('deliver', 'c', None), ('deliver', 's', None), ('tick', 2)]),
        # cancel right after the request, pumped
        st.just([('start',), ('cancel', -1, 'resp')]),
        # cancel, and ask for more afterwards
        st.tuples(st.integers(0, 3), st.sampled_from(['resp', 'req']), st.sampled_from([1, 5])).map(
            lambda a: [('tick', 2), ('cancel', a[0], a[1]), ('tick', 2), ('req', a[0], a[1], a[2]), ('tick', 3)]),
        # cancel some (virtual) milliseconds into the stream: a paced publisher has pulled ahead of what it has handed over
        st.integers(1, 90).map(lambda t: [('regime', 'pumped'), ('start',), ('adv', t), ('cancel', -1, 'resp'), ('adv', 120), ('tick', 3)]),
        # cancel while elements are in flight
        st.integers(0, 3).map(lambda i: [('regime', 'manual'), ('emit', i, 'resp', 2), ('tick', 2), ('cancel', i, 'resp'),
                                         ('deliver', 'c', None), ('deliver', 's', None), ('tick', 2)]),
        # the canceller hands an element over and cancels in the same turn while the peer's publisher fails: the ERROR
        # crosses the CANCEL
        st.integers(0, 3).map(lambda i: [('regime', 'manual'), ('emit', i, 'req', 1), ('cancel', i, 'resp'), ('end', i, 'resp'),
                                         ('tick', 2), ('deliver', 'c', None), ('deliver', 's', None), ('tick', 2)]),
        # completion deliverable in the same tick as the cancel
        st.integers(0, 3).map(lambda i: [('regime', 'manual'), ('end', i, 'resp'), ('resolve', i), ('tick', 2),
                                         ('deliver', 'c', None), ('deliver', 's', None), ('cancel', i, 'resp'), ('tick', 2)]),
    )
    chunks = draw(st.lists(st.one_of(single.map(lambda o: [o]), single.map(lambda o: [o]), macro), min_size=2, max_size=16))
    ops = [list(o) for ch in chunks for o in ch]
    ops.extend([['start']] * max(0, n - sum(1 for o in ops if o[0] == 'start')))
    if not any(o[0] == 'cancel' for o in ops):
        ops.append(['cancel', draw(st.integers(0, 3)), 'resp'])
    ops.append(['tick', 2])
    if draw(st.integers(0, 3)) == 0:
        # the endpoint is closed while cancelled interactions may still be half open: the teardown must not signal
        # the subscribers that have cancelled
        ops += [['close', draw(st.sampled_from(['c', 's']))], ['tick', 3]]
    return {'cfg': cfg, 'inter': inter, 'ops': ops}


info = {}


def classify_trace(tr):
    """cancel before the first element was delivered / with an element in flight / in the completion tick"""
    nt = False
    cancelled_uids = set()
    for e in tr.world.log:
        if e['ev'] in ('sub_cancel', 'rr_cancel_call'):
            uid = e['uid']
            cancelled_uids.add(uid)
            side = e['side']
            dirn = e.get('dir', 'resp')
            delivered = [x for x in tr.world.log if x.get('uid') == uid and x['ev'] in ('on_next', 'rr_result') and
                         x['side'] == side and x['seq'] < e['seq']]
            if not delivered:
                nt = True
            sid = tr.scn.st[uid]['sid']
            peer = monitors.OTHER[side]
            sent = sum(1 for x in tr.world.wire.get(peer, []) if x['f']['sid'] == sid and x['f']['type'] == 'PAYLOAD' and x['seq'] < e['seq'])
            recvd = sum(1 for x in tr.world.recv.get(side, []) if x['f']['sid'] == sid and x['f']['type'] == 'PAYLOAD' and x['seq'] < e['seq'])
            if sent > recvd:
                nt = True
    return nt, cancelled_uids


def prop(program):
    tr = run_program(program)
    vs = monitors.mon_cancel(tr, PID)
    nt, cancelled = classify_trace(tr)
    # bystanders: interactions that were never cancelled must be delivered in full
    vs += monitors.mon_delivery(tr, PID, skip_uids=cancelled)
    vs += monitors.mon_no_loop_errors(tr, PID)
    info['nt'] = nt
    kinds = sorted(set(tr.scn.st[u]['spec']['k'] for u in cancelled))
    info['classes'] = ['cancelled=' + ('+'.join(kinds) or 'none'), 'bystanders=%d' % (len(tr.scn.started) - len(cancelled)),
                       'quiescent=%s' % tr.quiet, 'nontrivial_moment=%s' % nt]
    return vs


def classify(case, vs):
    return info.get('nt', False), info.get('classes', ()), None


REGRESSION = [
    # D7: REQUEST_STREAM and CANCEL in one read against StreamFromGenerator
    {'cfg': {'msg': False, 'frag': [None, None], 'rbuf': [1024, 1024]},
     'inter': [{'k': 'st', 'side': 'c', 'req': [3, 0], 'src': {'kind': 'gen', 'els': [[5, 0], [5, 0]], 'end': 'sep'},
                'sub': {'n0': 1, 'refill': 0}}],
     'ops': [['tick', 3], ['regime', 'manual'], ['start'], ['cancel', 0, 'resp'], ['tick', 2], ['deliver', 'c', None],
             ['tick', 3], ['deliver', 's', None], ['tick', 2]]},
]


def shard(tier, seed, n):
    common.use_repo()
    stats = common.Stats()
    known = common.Known(PID)
    if n is None:
        for p in REGRESSION:
            vs = prop(p)
            stats.case(p, info.get('nt', False), ['regression'])
            for v in common.judge(stats, known, p, vs):
                stats.violations.append((v, p))
        return stats
    common.hyp_search(stats, known, programs(), prop, n, seed, classify=classify, shrink=True)
    return stats


# ---- a foreign peer that cancels and then still sends credit for the cancelled direction

def peer_cancel_matrix():
    out = []
    for real in ('c', 's'):
        for kind in ('gen', 'agen', 'manual', 'rx4bp'):
            for gap in (0, 2):
                for n in (1, 5):
                    out.append({'peer_cancel': True, 'real': real, 'kind': kind, 'gap': gap, 'n': n, 'msg': bool((gap + n) % 2)})
    return out


def peer_cancel_prop(case):
    """The real endpoint answers a channel with one of the library's sources; the scripted peer (whose own direction stays
    open, so the channel stays registered) sends CANCEL and afterwards REQUEST_N: the cancelled source is not touched again."""
    real = case['real']
    raw = 'c' if real == 's' else 's'
    spec = {'k': 'ch', 'side': raw, 'req': [3, 0], 'src': {'kind': case['kind'], 'els': [[4, 0]] * 8, 'end': 'sep', 'awaits': 0},
            'sub': {'n0': 2, 'refill': 0}, 'rsrc': {'kind': 'manual', 'els': [[4, 0]] * 3, 'end': 'sep'}, 'rsub': {'n0': 2, 'refill': 0}}
    ops = [['start'], ['tick', 4], ['rawf', 0, 'cancel', None]] + ([['tick', case['gap']]] if case['gap'] else []) + \
          [['mark', 'cancelled'], ['rawf', 0, 'request_n', case['n']], ['tick', 5], ['settle']]
    prog = {'cfg': {'msg': case['msg'], 'frag': [None, None], 'rbuf': [1024, 1024], 'raw': raw}, 'inter': [spec], 'ops': ops,
            'heal': False}
    tr = run_program(prog)
    vs = []
    log = tr.world.log
    cancel_recv = next((e['seq'] for e in tr.world.recv.get(real, []) if e['f']['type'] == 'CANCEL'), None)
    if cancel_recv is not None:
        late = [e for e in log if e['side'] == real and e['ev'] in ('hand', 'gen_start', 'pub_request') and e['seq'] > cancel_recv
                and e.get('dir') == 'resp']
        if late:
            vs.append(common.viol('production_after_cancel', '%s:production_after_cancel:%s:credit_after_cancel' % (PID, case['kind']),
                           what=sorted(set(e['ev'] for e in late)), n=len(late)))
        sent_after = [e for e in log if e['ev'] == 'queued' and e['side'] == real and e.get('ftype') == 'PayloadFrame'
                      and e['seq'] > cancel_recv]
        if sent_after:
            vs.append(common.viol('payload_after_cancel', '%s:payload_queued_after_cancel:%s:credit_after_cancel' % (PID, case['kind']),
                           n=len(sent_after)))
    vs += monitors.mon_no_loop_errors(tr, PID)
    info['nt'] = True
    info['classes'] = ['part=peer_cancels_then_credits', 'source=' + case['kind']]
    return vs


def peer_cancel_shard(tier, seed):
    common.use_repo()
    stats = common.Stats()
    known = common.Known(PID)
    for case in peer_cancel_matrix():
        vs = peer_cancel_prop(case)
        stats.case(case, True, info.get('classes', ()), sample_limit=1)
        for v in common.judge(stats, known, case, vs):
            if not any(v['sig'] == vv['sig'] for vv, _ in stats.violations):
                stats.violations.append((v, case))
    return stats


# ---- cancellation through the Rx / ReactiveX requester adapters (dispose of the result observable)

RX_VARIANTS = ('rx3', 'rx4', 'rx3/core', 'rx4/core')


def rx_scenarios():
    from harness.checks import c20

    def force(sc_and_choice):
        sc, ticks, after = sc_and_choice
        sc = dict(sc)
        if sc['model'] not in ('st', 'ch'):
            sc['model'] = 'st'
        if sc['model'] == 'ch':
            sc.setdefault('m', 2)
            sc.setdefault('rbp', False)
            sc.setdefault('rerr_at', None)
            sc.setdefault('resp_limit', MAXN_)
        sc['err_at'] = None
        if sc.get('dispose_after') is None and sc.get('dispose_ticks') is None:
            if after is not None and 1 <= after < sc['n'] and not sc.get('flag_end'):
                sc['dispose_after'] = after
            else:
                sc['dispose_ticks'] = ticks
        return sc

    return st.tuples(c20.scenarios(), st.sampled_from([0, 0, 1, 2, 3]), st.one_of(st.none(), st.integers(1, 6))).map(force)


MAXN_ = 0x7FFFFFFF


def rx_prop(sc):
    from harness.checks import c20
    vs = []
    for variant in RX_VARIANTS:
        for v in c20.judge_variant(sc, variant):
            if 'dispose' in v['sig']:
                v = dict(v, sig=v['sig'].replace('C20:', 'C09:rx:', 1))
                vs.append(v)
    info['nt'] = sc.get('dispose_ticks') in (0, 1) or (sc.get('dispose_after') or 99) < sc['n']
    info['classes'] = ['rx_dispose=%s' % ('immediately' if sc.get('dispose_ticks') == 0 else
                                          'after_ticks' if sc.get('dispose_ticks') is not None else 'after_elements'),
                       'rx_model=' + sc['model']]
    return vs


def rx_shard(tier, seed, n):
    common.use_repo()
    stats = common.Stats()
    known = common.Known(PID)
    common.hyp_search(stats, known, rx_scenarios(), rx_prop, n, seed, classify=classify, shrink=True)
    return stats


def run(tier, seed):
    t0 = time.time()
    total = 3200 if tier == 'quick' else 60000
    nsh = common.NPROC
    jobs = [('shard', dict(tier=tier, seed=0, n=None))] + [('shard', dict(tier=tier, seed=s, n=total // nsh))
                                                             for s in common.shard_seeds(seed, nsh)]
    nrx = 480 if tier == 'quick' else 12000
    jobs += [('rx_shard', dict(tier=tier, seed=s + 7777, n=nrx // 8)) for s in common.shard_seeds(seed, 8)]
    jobs.append(('peer_cancel_shard', dict(tier=tier, seed=seed)))
    stats = common.run_shards_multi(__name__, jobs)
    return common.finish(PID, tier, seed, LEVEL, RULE, stats, t0, ASSUMPTIONS)


def replay(path):
    common.use_repo()
    case = common.load_replay(path)
    if case.get('peer_cancel'):
        return common.report_replay(PID, path, peer_cancel_prop(case))
    if 'model' in case and 'ops' not in case:
        return common.report_replay(PID, path, rx_prop(case))
    return common.report_replay(PID, path, prop(case))
