"""C06 Request-n flow control: emission never exceeds granted credit (Engine B, DESIGN 3/C06)."""
import time

from hypothesis import strategies as st

from harness import common, gen, monitors
from harness.programs import run_program

PID = 'C06'
LEVEL = 'exploration'
RULE = ('Hypothesis-generated SimNet programs with 1-3 stream / channel interactions whose producers are the library\'s '
        'own sources: StreamFromGenerator, StreamFromAsyncGenerator (awaits between elements), Rx3 and ReactiveX4 '
        'observable_to_publisher over plain observables and over back-pressure factories, in the responder role and in '
        'both directions of a channel; 0-20 elements; consumer credit: initial n in {1,2,3,5,random,2^31-1} followed by '
        'request(n) operations with n in {1,2,3,big,2^31-1} placed before the request reached the producer, while '
        'elements are produced and after the producer went idle; REQUEST_N delivery timing generated (manual delivery, '
        'blocked drain); no heal credit, so runs end with the producer blocked. Oracle on the producer endpoint\'s own '
        'event log: sent(s) <= credit(s) at every element-starting PAYLOAD; at quiescence of an undisturbed run sent == '
        'min(#elements, credit) and the consumer received exactly those; the consumer\'s initial_request_n / request(n) '
        'values equal the initial request-n and REQUEST_N frames on its wire, value for value, in order. Non-trivial = '
        'the producer was blocked at sent == credit with elements remaining and later received more credit; distinct = '
        'program hash. Plus 2-3 concurrent streams served by an Rx handler that returns the same source object for every request: '
        'sent <= credit and sent == min(elements, credit) hold per stream.')
ASSUMPTIONS = ['lease off (D11 interacts with credit frames)', 'third-party publishers are out of scope by the statement']

KINDS = ['gen', 'agen', 'rx3', 'rx4', 'rx3bp', 'rx4bp']


def lib_src(frag):
    return st.fixed_dictionaries({
        'kind': st.sampled_from(KINDS),
        'els': st.lists(gen.nonempty_lens(frag, 2), min_size=0, max_size=20),
        'end': st.sampled_from(['flag', 'sep']),
        'awaits': st.integers(0, 3),
        'pace': st.sampled_from([0, 0, 0, 1, 7, 40]),
    })


def credit_spec():
    n0 = st.one_of(st.sampled_from([1, 1, 2, 3, 5, gen.MAXN]), st.integers(1, 30))
    return st.fixed_dictionaries({'n0': n0, 'refill': st.sampled_from([0, 0, 0, 1, 2, 3])})


@st.composite
def programs(draw):
    frag = draw(gen.frag_pair())
    cfg = {'msg': draw(st.booleans()), 'frag': frag, 'rbuf': draw(gen.rbufs())}
    n = draw(st.integers(1, 3))
    inter = []
    for i in range(n):
        side = draw(st.sampled_from(['c', 's']))
        fr_req = frag[0] if side == 'c' else frag[1]
        fr_resp = frag[1] if side == 'c' else frag[0]
        k = draw(st.sampled_from(['st', 'ch']))
        spec = {'k': k, 'side': side, 'req': draw(gen.lens(fr_req, 2)), 'src': draw(lib_src(fr_resp)),
                'sub': draw(credit_spec())}
        if k == 'ch':
            spec['rsrc'] = draw(st.one_of(st.none(), lib_src(fr_req), lib_src(fr_req)))
            spec['rsub'] = draw(credit_spec())
            if draw(st.integers(0, 6)) == 0:
                spec['src'] = None
        inter.append(spec)
    op = st.one_of(
        st.just(('start',)),
        st.tuples(st.just('req'), st.integers(0, 2), st.sampled_from(['resp', 'req']),
                  st.one_of(st.sampled_from([1, 1, 2, 3, 1000, gen.MAXN]), st.integers(1, 25))),
        st.tuples(st.just('tick'), st.integers(1, 6)),
        st.tuples(st.just('adv'), st.integers(1, 30)),
        st.tuples(st.just('deliver'), st.sampled_from(['c', 's']), st.one_of(st.none(), st.integers(1, 60))),
        st.tuples(st.just('regime'), st.sampled_from(['pumped', 'manual'])),
        st.tuples(st.just('block'), st.sampled_from(['c', 's'])),
        st.tuples(st.just('unblock'), st.sampled_from(['c', 's'])),
    )
    # "same read as the request": request(n) right after start, before anything was delivered
    macro = st.tuples(st.integers(1, 3), st.sampled_from([1, 2, 5, gen.MAXN])).map(
        lambda a: [('start',)] + [('req', -1, 'resp', a[1])] * a[0])
    chunks = draw(st.lists(st.one_of(op.map(lambda o: [o]), op.map(lambda o: [o]), op.map(lambda o: [o]), macro),
                           min_size=2, max_size=24))
    ops = [list(o) for ch in chunks for o in ch]
    ops.extend([['start']] * max(0, n - sum(1 for o in ops if o[0] == 'start')))
    ops.append(['tick', 3])
    heal_credit = draw(st.sampled_from([False, False, False, True]))
    if draw(st.integers(0, 7)) == 0:
        # large grants against a long source: 150-300 small elements, credit in steps of 65..200 (not only 1..30)
        i = draw(st.integers(0, n - 1))
        big = draw(st.sampled_from([150, 200, 300]))
        key = 'src' if inter[i].get('src') else ('rsrc' if inter[i].get('rsrc') else None)
        if key:
            inter[i][key] = dict(inter[i][key], els=[[1, 0]] * big, awaits=0)
            skey = 'sub' if key == 'src' else 'rsub'
            inter[i][skey] = {'n0': draw(st.sampled_from([65, 70, 100, 127, 128, 129, 200])), 'refill': 0}
            ops += [['tick', 6], ['req', i, 'resp' if key == 'src' else 'req', draw(st.sampled_from([65, 70, 100, 130]))], ['tick', 12]]
            heal_credit = False
    elif any(i_['k'] == 'ch' and i_.get('rsrc') and i_.get('src') for i_ in inter) and draw(st.integers(0, 2)) == 0:
        # a channel responder gives up on the requester's direction (cancels it) while its own publisher still has elements
        # beyond the credit it got; credit granted afterwards still has to be served
        i = draw(st.sampled_from([j for j, i_ in enumerate(inter) if i_['k'] == 'ch' and i_.get('rsrc') and i_.get('src')]))
        inter[i]['sub'] = {'n0': draw(st.sampled_from([1, 2])), 'refill': 0}
        if len(inter[i]['src'].get('els', [])) < 4:
            inter[i]['src'] = dict(inter[i]['src'], els=[[2, 0]] * 6)
        ops += [['tick', 4], ['cancel', i, 'req'], ['tick', draw(st.integers(1, 3))], ['req', i, 'resp', draw(st.integers(1, 3))],
                ['tick', 4], ['req', i, 'resp', draw(st.integers(1, 8))], ['tick', 12]]
        heal_credit = False
    elif any((i_.get(key) or {}).get('kind', '').endswith('bp') for i_ in inter for key in ('src', 'rsrc')) and \
            draw(st.integers(0, 1)) == 0:
        # a maximal grant next to another one, for a back-pressure-aware Rx source (the grants add up beyond 2^31 - 1)
        cands = [(j, key) for j, i_ in enumerate(inter) for key in ('src', 'rsrc') if (i_.get(key) or {}).get('kind', '').endswith('bp')]
        i, key = draw(st.sampled_from(cands))
        d = 'resp' if key == 'src' else 'req'
        first, second = draw(st.sampled_from([(gen.MAXN, 3), (1, gen.MAXN), (gen.MAXN, gen.MAXN)]))
        ops += [['tick', 3], ['req', i, d, first], ['req', i, d, second], ['tick', 20]]
        heal_credit = False
    elif draw(st.integers(0, 2)) == 0:
        # the last word on credit: a grant, a second one while the first is still being served, then silence - everything
        # that was granted has to be delivered without any further REQUEST_N
        i = draw(st.integers(0, n - 1))
        d = draw(st.sampled_from(['resp', 'resp', 'req']))
        ops += [['req', i, d, draw(st.integers(2, 8))], ['tick', draw(st.integers(1, 3))], ['req', i, d, draw(st.integers(1, 8))],
                ['tick', 20]]
        heal_credit = False
    return {'cfg': cfg, 'inter': inter, 'ops': ops, 'heal_credit': heal_credit}


info = {}


def blocked_then_credited(tr):
    """Some producer sat at sent == credit with elements remaining and later got more credit."""
    for uid in tr.scn.started:
        st_ = tr.scn.st[uid]
        sid = st_['sid']
        spec = st_['spec']
        for dirn in ('resp', 'req'):
            src = spec.get('src') if dirn == 'resp' else spec.get('rsrc')
            if not src:
                continue
            prod = monitors.OTHER[spec['side']] if dirn == 'resp' else spec['side']
            n_els = len(src.get('els', []))
            credit = sent = 0
            was_blocked = False
            in_train = False
            req_train = False
            for e in tr.world.log:
                if e['side'] != prod or e['ev'] not in ('send', 'recv') or e['f']['sid'] != sid:
                    continue
                f = e['f']
                if e['ev'] == 'recv':
                    if (f['type'] in ('REQUEST_STREAM', 'REQUEST_CHANNEL') and dirn == 'resp') or f['type'] == 'REQUEST_N':
                        if was_blocked and (f.get('n') or 0) > 0:
                            return True
                        credit = min(monitors.MAXN, credit + (f.get('n') or 0))
                    continue
                if f['type'] in monitors.REQ_TYPES:
                    req_train = bool(f.get('follows'))
                    continue
                if f['type'] == 'PAYLOAD':
                    if req_train:
                        req_train = bool(f.get('follows'))
                        continue
                    start = not in_train
                    in_train = bool(f.get('follows'))
                    if start and f.get('next') and (f['data'] or f['metadata']):
                        sent += 1
                        if sent == credit and sent < n_els:
                            was_blocked = True
    return False


@st.composite
def shared_cases(draw):
    """Two or three streams open at the same time, all served by an Rx handler that hands out the same source object
    (a cold observable, or one back-pressure factory wrapper) for every request: credit is per stream."""
    k = draw(st.integers(2, 3))
    return {'shared_source': True, 'version': draw(st.sampled_from([3, 4, 4])), 'bp': draw(st.booleans()),
            'n': draw(st.integers(4, 12)), 'streams': [{'n0': draw(st.sampled_from([1, 2, 3, 5]))} for _ in range(k)],
            'grants': [[draw(st.integers(0, k - 1)), draw(st.sampled_from([1, 2, 3, 20]))] for _ in range(draw(st.integers(1, 6)))],
            'msg': draw(st.booleans())}


def shared_prop(case):
    from harness import app as A
    from harness.checks import c20
    M = c20.rxmods(case['version'])

    def server_factory(scn):
        world = scn.world
        shared = c20.observable(M, world, 's', 'resp', case['n'], None, A.TAG_RESP, [5, 0], case['bp'])

        class Delegate(M['Base']):
            async def request_stream(self, payload):
                return shared

        return M['hf'](Delegate)

    inter = [{'k': 'st', 'side': 'c', 'req': [3, 0], 'src': None, 'sub': {'n0': s_['n0'], 'refill': 0}} for s_ in case['streams']]
    ops = [['tick', 3]] + [['start']] * len(inter) + [['tick', 6], ['settle']]
    for i, g in case['grants']:
        ops += [['req', i, 'resp', g], ['tick', 4]]
    ops += [['settle'], ['adv', 50], ['settle']]
    prog = {'cfg': {'msg': case['msg'], 'frag': [None, None], 'rbuf': [1024, 1024]}, 'inter': inter, 'ops': ops, 'heal': False,
            '_handler_factory': {'s': server_factory}, '_actions': {}}
    tr = run_program(prog)
    vs = []
    for uid in tr.scn.started:
        sid = tr.scn.st[uid]['sid']
        credit = sent = 0
        over = None
        for e in tr.world.log:
            if e['side'] != 's' or e['ev'] not in ('send', 'recv') or e['f']['sid'] != sid:
                continue
            f = e['f']
            if e['ev'] == 'recv' and f['type'] in ('REQUEST_STREAM', 'REQUEST_N'):
                credit = min(monitors.MAXN, credit + (f.get('n') or 0))
            elif e['ev'] == 'send' and f['type'] == 'PAYLOAD' and f.get('next') and not f.get('follows'):
                sent += 1
                if sent > credit and over is None:
                    over = (sent, credit)
        kind = ('rx%d' % case['version']) + ('bp' if case['bp'] else '')
        if over:
            vs.append(common.viol('sent_more_than_credit', '%s:over_credit:%s:shared_source' % (PID, kind), uid=uid, sent=over[0],
                                  credit=over[1]))
        elif sent != min(case['n'], credit):
            vs.append(common.viol('credit_not_used', '%s:stalled_with_credit:%s:shared_source' % (PID, kind), uid=uid, sent=sent,
                                  credit=credit, elements=case['n']))
    for err in tr.loop_errors:
        vs.append(common.viol('unhandled_exception', '%s:loop_error:%s' % (PID, err.get('type')), **err))
    info['nt'] = True
    info['classes'] = ['part=shared_source', 'streams=%d' % len(inter)]
    info['key'] = None
    return vs


def prop(program):
    if program.get('shared_source'):
        return shared_prop(program)
    tr = run_program(program)
    vs = monitors.mon_credit(tr, PID)
    # without heal credit the run ends with producers blocked: only order/integrity of what did arrive is judged here
    vs += monitors.mon_delivery(tr, PID, require_complete=bool(program.get('heal_credit', True)))
    vs += monitors.mon_no_loop_errors(tr, PID)
    info['nt'] = blocked_then_credited(tr)
    kinds = sorted(set((i.get('src') or {}).get('kind', '-') for i in program['inter']) |
                   set((i.get('rsrc') or {}).get('kind', '-') for i in program['inter'] if i['k'] == 'ch'))
    info['classes'] = ['sources=' + '+'.join(k for k in kinds if k != '-'), 'quiescent=%s' % tr.quiet,
                       'blocked_then_credited=%s' % info['nt'],
                       'channel=%s' % any(i['k'] == 'ch' for i in program['inter'])]
    info['key'] = None
    return vs


def classify(case, vs):
    return info.get('nt', False), info.get('classes', ()), None


def shard(tier, seed, n, shared=False):
    common.use_repo()
    stats = common.Stats()
    known = common.Known(PID)
    common.hyp_search(stats, known, shared_cases() if shared else programs(), prop, n, seed, classify=classify, shrink=True)
    return stats


def run(tier, seed):
    t0 = time.time()
    total = 4000 if tier == 'quick' else 60000
    nsh = common.NPROC
    jobs = [dict(tier=tier, seed=s, n=total // nsh) for s in common.shard_seeds(seed, nsh)]
    jobs += [dict(tier=tier, seed=s + 71, n=(240 if tier == 'quick' else 6000) // 4, shared=True) for s in common.shard_seeds(seed, 4)]
    stats = common.run_shards(__name__, 'shard', jobs)
    return common.finish(PID, tier, seed, LEVEL, RULE, stats, t0, ASSUMPTIONS)


def replay(path):
    common.use_repo()
    return common.report_replay(PID, path, prop(common.load_replay(path)))
