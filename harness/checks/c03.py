"""C03 Fragmentation and reassembly are exact and respect the size limit (Engine A, DESIGN 3/C03)."""
import hashlib
import itertools
import time

from hypothesis import strategies as st

from harness import common, frames, refcodec, variants
from harness.common import viol

PID = 'C03'
LEVEL = 'exploration'
RULE = ('(type in the 5 fragmentable types) x framing mode x fragment size x data length x metadata length x '
        'complete/next flags. Exhaustive window: every (data length, metadata length) pair in 0..W (W = 2*budget+8, '
        'covering 0..2+ fragments each) for a set of fragment sizes from the minimum 64 upward, both framing modes; '
        'plus Hypothesis cases with fragment sizes up to 65536 and payloads up to 300 KiB. Oracle = validity '
        'predicate taken from the statement (not from the fragmenter): each fragment serialised with Frame.serialize() '
        'and decoded by the independent reference codec is <= fragment size on the wire (+3 with length prefix); first '
        'fragment has the original type, stream id and initial request-n, the rest are PAYLOAD; follows on all but the '
        'last; complete only on the last and equal to the original; all metadata before any data; concatenations equal '
        'the original; a frame that fits is one fragment; FrameFragmentCache reassembles the original frame and is '
        'empty afterwards; both codec backends; plus reconnect histories of one client object in which the server was half '
        'way through a fragmented request when the connection ended and the next connection carries a fragmented request '
        'on the same stream id (what the handler receives == what was sent), and wide programs of 17-48 concurrent requests '
        'with multi-fragment payloads whose trains are interleaved with streams that start and finish meanwhile. Non-trivial = >= 2 fragments or total length within 3 bytes of the '
        'single-frame limit; distinct = distinct (type, mode, size, dlen, mlen, flags).')
ASSUMPTIONS = ['reference codec (harness/refcodec.py) decodes the fragments',
               'payload contents are a deterministic non-periodic pattern, so lengths identify a case']

HEADER = {'PAYLOAD': 6, 'REQUEST_RESPONSE': 6, 'REQUEST_FNF': 6, 'REQUEST_STREAM': 10, 'REQUEST_CHANNEL': 10}
TYPES = list(HEADER)

_pat_cache = {}


def pattern(tag, n):
    key = (tag, n >> 12)
    buf = _pat_cache.get(tag)
    if buf is None or len(buf) < n:
        buf = hashlib.shake_128(tag).digest(max(n, 4096))
        _pat_cache[tag] = buf
    return buf[:n]


def check_case(var, t, lp, size, dlen, mlen, complete, nxt, n, sid=5):
    """Returns (violations, n_fragments)."""
    out = []
    data = pattern(b'd', dlen)
    md = pattern(b'm', mlen)
    v = {'type': t, 'sid': sid, 'data': data, 'metadata': md if mlen else None}
    if t == 'PAYLOAD':
        v['complete'] = complete
        v['next'] = nxt or bool(dlen or mlen)
    if t == 'REQUEST_CHANNEL':
        v['complete'] = complete
    if t in ('REQUEST_STREAM', 'REQUEST_CHANNEL'):
        v['n'] = n
    facts = dict(type=t, length_prefixed=lp, size=size, dlen=dlen, mlen=mlen, complete=complete, backend=var.name)

    def bad(kind, sig=None, **kw):
        f = dict(facts)
        f.update(kw)
        out.append(viol(kind, 'C03:' + (sig or kind), **f))

    F = var.mod('rsocket.frame')
    fr = frames.to_repo(var, v)
    fr.fragment_size_bytes = size
    cap = (dlen + mlen) // max(1, (size or 64) - 16) + 6
    frags = []
    try:
        while True:
            f = fr.get_next_fragment(lp)
            if f is None:
                break
            frags.append(f)
            if len(frags) > cap:
                bad('fragmenter_does_not_terminate', produced=len(frags))
                return out, len(frags)
    except Exception as e:
        is_repo, sig = common.repo_exception_sig(e)
        if not is_repo:
            raise
        bad('fragmenter_raised', 'fragmenter_raised:' + type(e).__name__, exc=repr(e))
        return out, len(frags)
    if not frags:
        bad('no_fragment_produced')
        return out, 0
    wires = []
    for i, f in enumerate(frags):
        try:
            b = f.serialize()
            w = refcodec.decode(b)
        except Exception as e:
            bad('fragment_not_encodable', exc=repr(e), index=i)
            return out, len(frags)
        wires.append((b, w))
    whole = refcodec.encode(frames.normalise(v))
    whole_wire = len(whole) + (3 if lp else 0)
    last = len(wires) - 1
    seen_data = False
    got_md, got_d = b'', b''
    for i, (b, w) in enumerate(wires):
        wl = len(b) + (3 if lp else 0)
        if size is not None and wl > size:
            excess = wl - size
            has_md = w.get('metadata') is not None
            # root cause classes: the unbudgeted 3-byte metadata length field can cost at most 3 bytes, and only on
            # a fragment that carries metadata; anything else is a different defect
            cls = 'excess<=3' if excess <= 3 else 'excess>3'
            bad('oversize', 'oversize:%s:%s' % (cls, 'metadata_present' if has_md else 'no_metadata'),
                index=i, wire_len=wl, excess=excess)
        if i == 0:
            if w['type'] != t:
                bad('first_fragment_wrong_type', got=w['type'])
            if t in ('REQUEST_STREAM', 'REQUEST_CHANNEL') and w.get('n') != n:
                bad('first_fragment_wrong_request_n', got=w.get('n'), want=n)
        elif w['type'] != 'PAYLOAD':
            bad('continuation_not_payload', index=i, got=w['type'])
        if w['sid'] != sid:
            bad('fragment_wrong_stream', index=i, got=w['sid'])
        if bool(w.get('follows')) != (i != last):
            bad('follows_flag_wrong', 'follows_flag_wrong:%s' % ('last' if i == last else 'inner'), index=i,
                of=len(wires))
        cflag = bool(w.get('complete'))
        if i != last and cflag:
            bad('complete_before_last', index=i)
        if i == last and t in ('PAYLOAD', 'REQUEST_CHANNEL') and cflag != bool(complete):
            if t == 'PAYLOAD' or len(wires) > 1 or True:
                bad('complete_flag_lost' if complete else 'complete_flag_invented', index=i)
        if i == last and t not in ('PAYLOAD', 'REQUEST_CHANNEL') and cflag and w['type'] == 'PAYLOAD':
            bad('complete_flag_invented', index=i)
        md_part = w.get('metadata') or b''
        d_part = w.get('data') or b''
        if md_part and seen_data:
            bad('metadata_after_data', index=i)
        if d_part:
            seen_data = True
        got_md += md_part
        got_d += d_part
    if got_md != md:
        bad('metadata_not_preserved', got_len=len(got_md))
    if got_d != data:
        bad('data_not_preserved', got_len=len(got_d))
    if size is None or whole_wire <= size:
        if len(wires) != 1:
            bad('fits_but_fragmented', fragments=len(wires), whole_wire=whole_wire)
        elif wires[0][0] != whole:
            bad('single_frame_differs', got=wires[0][0][:40].hex(), want=whole[:40].hex())
    # receiver side
    C = var.mod('rsocket.frame_fragment_cache')
    cache = C.FrameFragmentCache()
    result = None
    try:
        for i, (b, w) in enumerate(wires):
            parsed = F.parse_or_ignore(b)
            result = cache.append(parsed)
            if i != last and result is not None:
                bad('reassembly_early_result', index=i)
                break
    except Exception as e:
        is_repo, sig = common.repo_exception_sig(e)
        if not is_repo:
            raise
        bad('reassembly_raised', 'reassembly_raised:' + type(e).__name__, exc=repr(e))
        return out, len(wires)
    if result is None:
        bad('reassembly_no_result')
    else:
        got = frames.from_repo(result)
        want = frames.ref_view(refcodec.decode(whole))
        got.pop('follows', None)
        want.pop('follows', None)
        if got != want:
            diff = sorted(k for k in set(got) | set(want) if got.get(k) != want.get(k))
            bad('reassembled_frame_differs', 'reassembled_frame_differs:%s:%s' % (t, ','.join(diff)), fields=diff,
                got={k: (len(got[k]) if isinstance(got.get(k), bytes) else got.get(k)) for k in diff},
                want={k: (len(want[k]) if isinstance(want.get(k), bytes) else want.get(k)) for k in diff})
        if getattr(cache, '_frames_by_stream_id', None):
            bad('reassembly_cache_not_empty')
    return out, len(wires)


def budget(size, lp):
    return size - 6 - (3 if lp else 0)


def single_limit(t, lp, size, mlen):
    """Largest dlen+mlen that still fits one frame."""
    return size - HEADER[t] - (3 if lp else 0) - (3 if mlen else 0)


def nontrivial(t, lp, size, dlen, mlen, nfr):
    if nfr >= 2:
        return True
    if size is None:
        return False
    return abs((dlen + mlen) - single_limit(t, lp, size, mlen)) <= 3


def window_shard(tier, seed, combos):
    """Exhaustive (dlen, mlen) windows for the given (type, lp, size, complete) combos."""
    common.use_repo()
    stats = common.Stats()
    known = common.Known(PID)
    vars_ = variants.all_variants()
    stats.extra['backends'] = [v.name for v in vars_]
    for (t, lp, size, complete) in combos:
        W = 2 * budget(size, lp) + 8
        for dlen in range(W + 1):
            for mlen in range(W + 1):
                nfr = 0
                vs = []
                for var in vars_:
                    o, nfr = check_case(var, t, lp, size, dlen, mlen, complete, False, 7 if (dlen + mlen) % 3 else 0x7FFFFFFF)
                    vs.extend(o)
                case = {'type': t, 'lp': lp, 'size': size, 'dlen': dlen, 'mlen': mlen, 'complete': complete}
                nt = nontrivial(t, lp, size, dlen, mlen, nfr)
                stats.evaluations += 1
                if nt:
                    key = '%s/%d/%d/%d/%d/%d' % (t, lp, size, dlen, mlen, complete)
                    if len(stats.samples) < 2 and dlen > 40 and mlen > 40:
                        stats.samples.append(case)
                    stats.nontrivial.add(key)
                new = common.judge(stats, known, case, vs)
                seen = set(s for (vv, c) in stats.violations for s in [vv['sig']])
                for v in new:
                    if v['sig'] not in seen:
                        seen.add(v['sig'])
                        stats.violations.append((v, case))
        stats.classes['window:%s:%s:size=%d:complete=%s' % (t, 'lp' if lp else 'msg', size, complete)] += 1
    stats.exhaustive = True
    return stats


@st.composite
def hyp_cases(draw):
    t = draw(st.sampled_from(TYPES))
    lp = draw(st.booleans())
    size = draw(st.one_of(st.sampled_from([64, 65, 66, 67, 70, 73, 100, 128, 255, 256, 1024, 4096, 65535, 65536]),
                          st.integers(64, 300), st.integers(64, 65536), st.none()))
    b = budget(size or 256, lp)
    ln = st.one_of(st.sampled_from([0, 0, 1, 2, 3]),
                   st.builds(lambda k, d: max(0, k * b + d), st.integers(1, 8), st.integers(-12, 12)),
                   st.integers(0, 10 * b))
    dlen = draw(ln)
    mlen = draw(ln)
    if draw(st.integers(0, 40)) == 0:
        dlen = draw(st.sampled_from([70000, 300000, 65536 * 2]))
    return {'type': t, 'lp': lp, 'size': size, 'dlen': min(dlen, 300000), 'mlen': min(mlen, 300000),
            'complete': draw(st.booleans()), 'next': False,
            'n': draw(st.sampled_from([1, 2, 0x7FFFFFFF, 12345]))}


info = {}


def prop(c):
    vs = []
    nfr = 0
    for var in variants.all_variants():
        o, nfr = check_case(var, c['type'], c['lp'], c['size'], c['dlen'], c['mlen'], c['complete'], c.get('next', False),
                            c.get('n', 1))
        vs.extend(o)
    info['nt'] = nontrivial(c['type'], c['lp'], c['size'], c['dlen'], c['mlen'], nfr)
    info['classes'] = ['fragments=%s' % (nfr if nfr < 5 else '5+'), 'type=' + c['type'],
                       'size=%s' % ('none' if c['size'] is None else ('<=128' if c['size'] <= 128 else '>128'))]
    return vs


def classify(case, vs):
    return info['nt'], info['classes'], None


def hyp_shard(tier, seed, n):
    common.use_repo()
    stats = common.Stats()
    known = common.Known(PID)
    variants.load()
    common.hyp_search(stats, known, hyp_cases(), prop, n, seed, classify=classify, shrink=True)
    return stats


def reconnect_prop(wrapped):
    """Reassembly across connections of one client object: a fragmented request the server had half sent when the
    connection ended must not be merged with the fragmented request the next connection's server sends on the same
    stream id (C17's reconnect histories with fragmentation on; what the client's handler received is compared with
    what was sent)."""
    from harness import monitors
    from harness.checks import c17
    from harness.programs import run_program
    case = wrapped['reconnect']
    prog, plan = c17.build(case)
    tr = run_program(prog)
    probe_uids = [u for p_ in plan for u in p_['probes']]
    skip = set(range(len(prog['inter']))) - set(probe_uids)
    vs = monitors.mon_delivery(tr, PID, require_complete=False, skip_uids=skip)
    info['nt'] = any(e.get('server_partial') for e in case['endings'])
    info['classes'] = ['part=reconnect', 'reconnects=%d' % len(case['endings'])]
    return vs


def interleave_prop(program):
    """Reassembly while other streams come and go: many concurrent requests with multi-fragment payloads (C01's wide programs and C05's multiplexing programs: trains interleaved with frames of streams
    that start and finish meanwhile): every request and response is put together exactly."""
    from harness import monitors
    from harness.programs import run_program
    tr = run_program(program)
    vs = monitors.mon_delivery(tr, PID)
    info['nt'] = True
    info['classes'] = ['part=interleaved_trains', 'requests=%d' % len(program['inter'])]
    return vs


def interleave_shard(tier, seed, n):
    from harness.checks import c01
    common.use_repo()
    stats = common.Stats()
    known = common.Known(PID)
    from harness.checks import c05
    strat = st.one_of(c01.wide_programs(), c05.programs().map(c05.sanitize), c05.programs().map(c05.sanitize))
    common.hyp_search(stats, known, strat.map(lambda p_: dict(p_, interleave=True)), interleave_prop, n, seed,
                      classify=classify, shrink=False)
    return stats


def reconnect_shard(tier, seed, n):
    from harness.checks import c05
    common.use_repo()
    stats = common.Stats()
    known = common.Known(PID)
    common.hyp_search(stats, known, c05.reconnect_cases(), reconnect_prop, n, seed, classify=classify, shrink=False)
    return stats


def run(tier, seed):
    t0 = time.time()
    jobs = []
    if tier == 'quick':
        sizes = [64, 65, 67]
        combos = [(t, lp, s, c) for t in ('PAYLOAD', 'REQUEST_CHANNEL') for lp in (True, False) for s in sizes
                  for c in (False, True)]
        combos += [(t, True, 64, False) for t in ('REQUEST_RESPONSE', 'REQUEST_FNF', 'REQUEST_STREAM')]
        nh = 3200
    else:
        sizes = [64, 65, 66, 67, 70, 73, 100, 128]
        combos = [(t, lp, s, c) for t in TYPES for lp in (True, False) for s in sizes
                  for c in ((False, True) if t in ('PAYLOAD', 'REQUEST_CHANNEL') else (False,))]
        nh = 100000
    combos.sort(key=lambda c: -c[2])
    for c in combos:
        jobs.append(('window_shard', dict(tier=tier, seed=seed, combos=[c])))
    nsh = common.NPROC
    for s in common.shard_seeds(seed, nsh):
        jobs.append(('hyp_shard', dict(tier=tier, seed=s, n=nh // nsh)))
    for s in common.shard_seeds(seed, 4):
        jobs.append(('reconnect_shard', dict(tier=tier, seed=s + 31, n=(160 if tier == 'quick' else 4000) // 4)))
    for s in common.shard_seeds(seed, 4):
        jobs.append(('interleave_shard', dict(tier=tier, seed=s + 53, n=(480 if tier == 'quick' else 12000) // 4)))
    stats = common.run_shards_multi(__name__, jobs)
    stats.exhaustive = None  # the windows are exhaustive, the Hypothesis part is not: say so in a dedicated key
    stats.extra['exhaustive_windows'] = ['%s/%s/size=%d/complete=%s' % (t, 'length-prefixed' if lp else 'message', s, c)
                                         for (t, lp, s, c) in combos]
    stats.extra['window_rule'] = 'all (dlen, mlen) in [0, 2*(size-6-3*lp)+8]^2'
    return common.finish(PID, tier, seed, LEVEL, RULE, stats, t0, ASSUMPTIONS)


def replay(path):
    c = common.load_replay(path)
    if 'reconnect' in c:
        common.use_repo()
        return common.report_replay(PID, path, reconnect_prop(c))
    if c.get('interleave'):
        common.use_repo()
        return common.report_replay(PID, path, interleave_prop(c))
    if 'lp' in c and 'next' not in c:
        c = dict(c, next=False, n=7 if (c['dlen'] + c['mlen']) % 3 else 0x7FFFFFFF)
    common.use_repo()
    variants.load()
    return common.report_replay(PID, path, prop(c))
