"""C02 Frame codec round trip, canonical bytes, backend independence (Engine A, DESIGN 3/C02)."""
import itertools
import struct
import time

from hypothesis import strategies as st

from harness import common, frames, refcodec, variants
from harness.common import viol

PID = 'C02'
LEVEL = 'exploration'
RULE = ('Hypothesis-generated frame values of each of the 14 types (stream ids 0..2^31-1, every flag combination, '
        '31/32/63-bit counters with boundary bias, MIME strings 0..127 bytes, resume tokens, data/metadata 0..300 bytes '
        'plus 4 KiB/64 KiB/70 KiB blobs). Oracle: differential against an independent reference codec written from the '
        'RSocket 1.0 frame layouts (serialize == reference bytes), round trip (parse_or_ignore(reference bytes) has the '
        'same fields), canonical (serialize(parse(b)) == b), partial write through the real TransportTCP.send_frame '
        '(one frame into a copying writer, and sequences of 2-6 frames into a writer that keeps the objects it was '
        'handed, as asyncio does when the socket is not writable, read back after the last frame; a frame object written '
        'again after its payload grew, an object whose byte strings are bytearrays written twice, and an object decoded from non-canonical bytes forwarded as it is; the value with the metadata flag set and empty metadata, which the fragmenter builds at an exact fit, must give its data back) '
        'against a recording writer (concatenated writes == 3-byte length + bytes), serialize_with_frame_size_header, '
        'all on both codec backends (cbitstruct and native struct, the second imported with cbitstruct masked) with '
        'identical results; plus exhaustive comparison of the two header parsers over 64 type codes x 1024 flag '
        'patterns x 5 stream ids, parse_type over 256 bytes and the 24-bit / 63-bit helpers. Non-trivial = frame '
        'with content or a non-default flag/counter; distinct = distinct reference encoding.')
ASSUMPTIONS = ['reference codec written from the RSocket 1.0 specification (harness/refcodec.py)',
               'EXT frames are outside (no class registered); frame values the encoder cannot represent '
               '(metadata flag with empty metadata) are judged only on content coming back and on the forms agreeing']


class RecWriter:
    def __init__(self):
        self.chunks = []

    def write(self, data):
        self.chunks.append(bytes(data))

    async def drain(self):
        return


def check_value(v, vs_list=None):
    out = []
    nv = frames.normalise(v)
    ref = refcodec.encode(nv)
    want = frames.ref_view(refcodec.decode(ref))
    results = {}
    for var in variants.all_variants():
        F = var.mod('rsocket.frame')
        res = {}
        try:
            fr = frames.to_repo(var, v)
            b = fr.serialize()
        except Exception as e:
            is_repo, sig = common.repo_exception_sig(e)
            if not is_repo:
                raise
            out.append(viol('encode_raised', 'C02:encode_raised:%s:%s' % (v['type'], type(e).__name__), type=v['type'],
                            backend=var.name, exc=repr(e)))
            continue
        res['bytes'] = b
        if b != ref:
            out.append(viol('encode_differs_from_reference', 'C02:encode_differs:%s' % v['type'], type=v['type'],
                            backend=var.name, got=b[:64].hex(), want=ref[:64].hex(), got_len=len(b), want_len=len(ref)))
        # size-header forms
        try:
            full = F.serialize_with_frame_size_header(frames.to_repo(var, v))
            if full != refcodec.frame_with_length(ref):
                out.append(viol('size_header_form_differs', 'C02:size_header_form:%s' % v['type'], type=v['type'],
                                backend=var.name, got=full[:32].hex(), want=refcodec.frame_with_length(ref)[:32].hex()))
            T = var.mod('rsocket.transports.tcp')
            w = RecWriter()
            tr = T.TransportTCP(None, w)
            common.drive(tr.send_frame(frames.to_repo(var, v)))
            written = b''.join(w.chunks)
            res['partial'] = written
            if written != refcodec.frame_with_length(ref):
                bad = 'length' if written[3:] == ref else 'bytes'
                out.append(viol('partial_write_differs', 'C02:partial_write:%s:%s' % (bad, v['type']), type=v['type'],
                                backend=var.name, got=written[:32].hex(), want=refcodec.frame_with_length(ref)[:32].hex(),
                                got_len=len(written), want_len=len(ref) + 3))
        except Exception as e:
            is_repo, sig = common.repo_exception_sig(e)
            if not is_repo:
                raise
            out.append(viol('partial_write_raised', 'C02:partial_write_raised:%s' % v['type'], type=v['type'],
                            backend=var.name, exc=repr(e)))
        # the same frame object written again after its payload changed size, and a decoded object forwarded: the length
        # prefix is that of what is written now (compared with the object's own one-shot encoding)
        try:
            T = var.mod('rsocket.transports.tcp')

            def written_by(obj):
                w2 = RecWriter()
                common.drive(T.TransportTCP(None, w2).send_frame(obj))
                return b''.join(w2.chunks)

            fr2 = frames.to_repo(var, v)
            written_by(fr2)
            if isinstance(getattr(fr2, 'data', None), (bytes, bytearray)) and v['type'] not in ('RESUME', 'RESUME_OK'):
                fr2.data = bytes(fr2.data) + b'grown' * 9
                again = written_by(fr2)
                body = fr2.serialize()
                if again != refcodec.frame_with_length(body):
                    out.append(viol('partial_write_differs', 'C02:partial_write:reused_object:%s' % v['type'], type=v['type'],
                                    backend=var.name, got=again[:16].hex(), want=refcodec.frame_with_length(body)[:16].hex()))
            if nv.get('metadata') and nv.get('data') and v['type'] not in ('RESUME', 'RESUME_OK'):
                # byte strings handed over as bytearray (what the decoder itself produces, and what an application that
                # re-uses a buffer passes): writing the frame must not change it - a second write gives the same bytes
                fr3 = frames.to_repo(var, v)
                if isinstance(getattr(fr3, 'metadata', None), (bytes, bytearray)) and isinstance(getattr(fr3, 'data', None), (bytes, bytearray)):
                    fr3.metadata = bytearray(fr3.metadata)
                    fr3.data = bytearray(fr3.data)
                    first = written_by(fr3)
                    second = written_by(fr3)
                    want3 = refcodec.frame_with_length(ref)
                    if first != want3 or second != want3 or fr3.serialize() != ref:
                        which = 'first' if first != want3 else ('second' if second != want3 else 'one_shot_after')
                        out.append(viol('partial_write_differs', 'C02:partial_write:bytearray_fields:%s:%s' % (which, v['type']),
                                        type=v['type'], backend=var.name, got_len=len(second), want_len=len(want3),
                                        metadata_len_after=len(fr3.metadata), metadata_len=len(nv['metadata'])))
            if nv.get('metadata') is None and v['type'] in ('PAYLOAD', 'REQUEST_RESPONSE', 'REQUEST_FNF', 'REQUEST_STREAM',
                                                           'REQUEST_CHANNEL'):
                # non-canonical input: METADATA flag with a zero-length metadata block (the encoder drops both)
                nc = bytearray(ref)
                nc[4] |= 0x01
                hdr = 10 if v['type'] in ('REQUEST_STREAM', 'REQUEST_CHANNEL') else 6
                nc[hdr:hdr] = b'\x00\x00\x00'
                obj = F.parse_or_ignore(bytes(nc))
                if obj is not None:
                    fwd = written_by(obj)
                    body = obj.serialize()
                    if fwd != refcodec.frame_with_length(body):
                        out.append(viol('partial_write_differs', 'C02:partial_write:forwarded_object:%s' % v['type'],
                                        type=v['type'], backend=var.name, got=fwd[:16].hex(),
                                        want=refcodec.frame_with_length(body)[:16].hex()))
        except Exception as e:
            is_repo, sig = common.repo_exception_sig(e)
            if not is_repo:
                raise
            out.append(viol('partial_write_raised', 'C02:partial_write_raised:reuse:%s' % v['type'], type=v['type'],
                            backend=var.name, exc=repr(e)))
        # the value the library's own fragmenter builds when the metadata ends exactly on a fragment boundary (and what a
        # decoded frame with a zero-length metadata block is): metadata flag set, metadata b''. Whether the encoder
        # keeps the empty block or drops it with the flag, the content must come back and all forms must agree.
        if not nv.get('metadata') and v['type'] in ('PAYLOAD', 'REQUEST_RESPONSE', 'REQUEST_FNF', 'REQUEST_STREAM',
                                                    'REQUEST_CHANNEL', 'SETUP'):
            try:
                fe = frames.to_repo(var, v)
                fe.flags_metadata = True
                fe.metadata = b''
                be = fe.serialize()
                back = F.parse_or_ignore(be)
                wd = bytes(nv.get('data') or b'')
                gd = None if back is None else bytes(getattr(back, 'data', None) or b'')
                gm = None if back is None else bytes(getattr(back, 'metadata', None) or b'')
                if back is None or gd != wd or gm != b'':
                    out.append(viol('decode_fields_differ', 'C02:decode_fields:%s:empty_metadata_with_flag' % v['type'],
                                    type=v['type'], backend=var.name, got_data=None if gd is None else gd[:24].hex(),
                                    want_data=wd[:24].hex(), got_metadata=None if gm is None else gm[:24].hex()))
                elif back.serialize() != be:
                    out.append(viol('reencode_differs', 'C02:reencode_differs:%s:empty_metadata_with_flag' % v['type'],
                                    type=v['type'], backend=var.name, got=back.serialize()[:32].hex(), want=be[:32].hex()))
                fe2 = frames.to_repo(var, v)
                fe2.flags_metadata = True
                fe2.metadata = b''
                we = RecWriter()
                common.drive(var.mod('rsocket.transports.tcp').TransportTCP(None, we).send_frame(fe2))
                if b''.join(we.chunks) != refcodec.frame_with_length(be):
                    out.append(viol('partial_write_differs', 'C02:partial_write:empty_metadata_with_flag:%s' % v['type'],
                                    type=v['type'], backend=var.name, got=b''.join(we.chunks)[:32].hex(),
                                    want=refcodec.frame_with_length(be)[:32].hex()))
            except Exception as e:
                is_repo, sig = common.repo_exception_sig(e)
                if not is_repo:
                    raise
                out.append(viol('encode_raised', 'C02:encode_raised:%s:empty_metadata_with_flag' % v['type'],
                                type=v['type'], backend=var.name, exc=repr(e)))
        # decode the reference bytes
        try:
            parsed = F.parse_or_ignore(ref)
        except Exception as e:
            is_repo, sig = common.repo_exception_sig(e)
            if not is_repo:
                raise
            out.append(viol('decode_raised', 'C02:decode_raised:%s:%s' % (v['type'], type(e).__name__), type=v['type'],
                            backend=var.name, exc=repr(e), bytes=ref[:64].hex()))
            continue
        if parsed is None:
            out.append(viol('decode_returned_none', 'C02:decode_none:%s' % v['type'], type=v['type'], backend=var.name))
            continue
        got = frames.from_repo(parsed)
        res['decoded'] = got
        if got != want:
            diff = sorted(k for k in set(got) | set(want) if got.get(k) != want.get(k))
            out.append(viol('decode_fields_differ', 'C02:decode_fields:%s:%s' % (v['type'], ','.join(diff)),
                            type=v['type'], backend=var.name, fields=diff,
                            got={k: got.get(k) for k in diff}, want={k: want.get(k) for k in diff}))
        try:
            again = parsed.serialize()
            if again != ref:
                out.append(viol('reencode_differs', 'C02:reencode_differs:%s' % v['type'], type=v['type'],
                                backend=var.name, got=again[:64].hex(), want=ref[:64].hex()))
        except Exception as e:
            is_repo, sig = common.repo_exception_sig(e)
            if not is_repo:
                raise
            out.append(viol('reencode_raised', 'C02:reencode_raised:%s' % v['type'], type=v['type'], backend=var.name,
                            exc=repr(e)))
        results[var.name] = res
    if len(results) == 2:
        a, b = results.values()
        if a != b:
            out.append(viol('backends_disagree', 'C02:backends_disagree:%s' % v['type'], type=v['type']))
    return out, ref, nv


info = {}


class HoldWriter:
    """A writer that keeps what it was given instead of copying it - what asyncio's socket transport does with data it
    cannot send at once (the caller must not touch the object afterwards). Read back after all frames were written."""

    def __init__(self):
        self.held = []

    def write(self, data):
        self.held.append(data)

    async def drain(self):
        return


def seq_prop(case):
    """Several frames through one TransportTCP: the byte stream is the concatenation of the one-shot encodings."""
    out = []
    vals = case['seq']
    want = b''.join(refcodec.frame_with_length(refcodec.encode(frames.normalise(v))) for v in vals)
    for var in variants.all_variants():
        T = var.mod('rsocket.transports.tcp')
        w = HoldWriter()
        tr = T.TransportTCP(None, w)
        try:
            for v in vals:
                common.drive(tr.send_frame(frames.to_repo(var, v)))
        except Exception as e:
            is_repo, sig = common.repo_exception_sig(e)
            if not is_repo:
                raise
            out.append(viol('partial_write_raised', 'C02:partial_write_raised:sequence', backend=var.name, exc=repr(e)))
            continue
        got = b''.join(bytes(x) for x in w.held)
        if got != want:
            at = next((i for i, (a, b) in enumerate(zip(got, want)) if a != b), min(len(got), len(want)))
            out.append(viol('partial_write_differs', 'C02:partial_write:sequence', backend=var.name, first_difference_at=at,
                            got=got[max(0, at - 4):at + 12].hex(), want=want[max(0, at - 4):at + 12].hex(),
                            types=[v['type'] for v in vals]))
    info['nt'] = len(set(len(refcodec.encode(frames.normalise(v))) for v in vals)) >= 2
    info['key'] = common.case_hash(want)
    info['classes'] = ['sequence_of=%d' % len(vals)]
    return out


def prop(v):
    if 'seq' in v:
        return seq_prop(v)
    out, ref, nv = check_value(v)
    nt = bool(nv.get('data')) or bool(nv.get('metadata')) or any(
        nv.get(k) for k in ('ignore', 'follows', 'complete', 'next', 'respond', 'lease', 'resume', 'n', 'position',
                            'ttl', 'count', 'sid'))
    info['nt'] = nt
    info['key'] = common.case_hash(ref)
    info['classes'] = ['type=' + v['type'], 'len>=65536' if len(ref) >= 65536 else 'len<65536']
    return out


def classify(case, vs):
    return info['nt'], info['classes'], info['key']


# ---------------------------------------------------------------------------------------- exhaustive tables

def header_table(stats, known):
    """parse_header_native vs parse_header_cbitstruct vs the reference, all 64 type codes x 1024 flags x 5 ids."""
    var = variants.load()['cbitstruct']
    nat = variants.load()['native']
    sidsel = [0, 1, 2, 0x7FFFFFFF, 0x12345678]
    n = 0
    for code, flags, sid in itertools.product(range(64), range(1024), sidsel):
        hdr = struct.pack('>IH', sid, (code << 10) | flags) + b'\x00' * 20
        outs = []
        impls = []
        if var is not None:
            F = var.mod('rsocket.frame')
            impls = [('cbitstruct', F, F.parse_header_cbitstruct), ('native-in-cbit-module', F, F.parse_header_native)]
        Fn = nat.mod('rsocket.frame')
        impls.append(('native', Fn, Fn.parse_header_native))
        for name, F, fn in impls:
            h = F.Header()
            try:
                fl = fn(h, hdr, 0)
                outs.append((name, (h.stream_id, int(h.frame_type), bool(h.flags_ignore), bool(h.flags_metadata),
                                    bool(fl.flags_follows_resume_respond), bool(fl.flags_complete_lease),
                                    bool(fl.flags_next), h.length)))
            except Exception as e:
                outs.append((name, ('raise', type(e).__name__)))
        if code in refcodec.TYPE_NAMES:
            want = (sid, code, bool(flags & 0x200), bool(flags & 0x100), bool(flags & 0x80), bool(flags & 0x40),
                    bool(flags & 0x20), len(hdr))
        else:
            want = ('raise', 'RSocketUnknownFrameType')
        n += 1
        bad = [(name, o) for name, o in outs if o != want]
        case = {'table': 'header', 'code': code, 'flags': flags, 'sid': sid}
        if bad:
            v = viol('header_parser_disagrees', 'C02:header_parser:%s' % bad[0][0], code=code, flags=flags, sid=sid,
                     got=bad, want=want)
            for nv in common.judge(stats, known, case, [v]):
                stats.violations.append((nv, case))
        if flags in (0, 0x3FF, 0x155) and sid == 1:
            stats.case(case, True, ['table=header'], key='hdr-%d-%d-%d' % (code, flags, sid))
        else:
            stats.evaluations += 1
    stats.extra['header_table_entries'] = n
    return n


def helper_tables(stats, known, seed):
    import random
    rnd = random.Random(seed)  # fixed function of VERIF_SEED; values only, no control flow depends on it
    vs = variants.all_variants()
    helpers = [v.mod('rsocket.frame_helpers') for v in vs]
    n = 0
    for byte in range(256):
        res = [tuple(int(x) for x in h.parse_type(bytes([byte]) + b'rest')) for h in helpers]
        want = (byte >> 7, byte & 0x7F)
        n += 1
        case = {'table': 'parse_type', 'byte': byte}
        if any(r != want for r in res):
            v = viol('parse_type_differs', 'C02:parse_type', byte=byte, got=res, want=want)
            for nv in common.judge(stats, known, case, [v]):
                stats.violations.append((nv, case))
    vals24 = [0, 1, 2, 255, 256, 65535, 65536, (1 << 24) - 1, (1 << 24) - 2] + [rnd.randrange(1 << 24) for _ in range(5000)]
    for x in vals24:
        want = struct.pack('>I', x)[1:]
        n += 1
        for h in helpers:
            if bytes(h.pack_24bit(x)) != want or h.unpack_24bit(b'\xAA' + want + b'\xBB', 1) != x:
                case = {'table': 'u24', 'value': x}
                v = viol('u24_helper_differs', 'C02:u24_helper', value=x)
                for nv in common.judge(stats, known, case, [v]):
                    stats.violations.append((nv, case))
    M63 = (1 << 63) - 1
    vals63 = [0, 1, M63, M63 - 1, 1 << 32, (1 << 32) - 1, 1 << 62] + [rnd.randrange(1 << 63) for _ in range(5000)]
    for x in vals63:
        want = struct.pack('>Q', x)
        n += 1
        for h in helpers:
            if bytes(h.pack_position(x)) != want or h.unpack_position(want) != x:
                case = {'table': 'u63', 'value': x}
                v = viol('position_helper_differs', 'C02:position_helper', value=x)
                for nv in common.judge(stats, known, case, [v]):
                    stats.violations.append((nv, case))
    stats.evaluations += n
    stats.extra['helper_table_entries'] = n
    stats.case({'table': 'helpers', 'entries': n}, True, ['table=helpers'], key='helpers')


def shard(tier, seed, n, types=None, tables=False):
    common.use_repo()
    stats = common.Stats()
    known = common.Known(PID)
    variants.load()
    stats.extra['backends'] = [v.name for v in variants.all_variants()]
    if tables:
        header_table(stats, known)
        helper_tables(stats, known, seed)
        return stats
    if types == ['sequence']:
        strat = st.lists(frames.any_frame_value(), min_size=2, max_size=6).map(lambda l: {'seq': l})
        common.hyp_search(stats, known, strat, prop, n, seed, classify=classify, shrink=True)
        return stats
    for t in types:
        common.hyp_search(stats, known, frames.frame_value(t), prop, n, seed, classify=classify, shrink=True)
    return stats


def run(tier, seed):
    t0 = time.time()
    per_type = 1500 if tier == 'quick' else 40000
    types = list(refcodec.TYPES)
    nsh = common.NPROC - 1
    jobs = [dict(tier=tier, seed=seed, n=0, tables=True)]
    seeds = common.shard_seeds(seed, nsh)
    if tier == 'quick':
        for i, t in enumerate(types):
            jobs.append(dict(tier=tier, seed=seeds[i % nsh], n=per_type, types=[t]))
    else:
        parts = 4
        for i, t in enumerate(types):
            for j in range(parts):
                jobs.append(dict(tier=tier, seed=seeds[(i * parts + j) % nsh] + j, n=per_type // parts, types=[t]))
    jobs.append(dict(tier=tier, seed=seeds[0] + 99, n=600 if tier == 'quick' else 20000, types=['sequence']))
    stats = common.run_shards(__name__, 'shard', jobs)
    if tier == 'thorough':
        from harness import fuzz
        fuzz.run_atheris(stats, PID, 'c02', seed, runs=1000000, max_seconds=240)
    return common.finish(PID, tier, seed, LEVEL, RULE, stats, t0, ASSUMPTIONS)


def replay(path):
    case = common.load_replay(path)
    if 'table' in case:
        stats = common.Stats()
        known = common.Known(PID)
        header_table(stats, known)
        helper_tables(stats, known, 1)
        return common.report_replay(PID, path, [v for v, c in stats.violations])
    return common.report_replay(PID, path, prop(case))
