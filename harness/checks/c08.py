"""C08 Frames emitted are legal RSocket for the emitter's role (Engine B; monitor over several generators)."""
import time

from hypothesis import strategies as st

from harness import common, gen, monitors
from harness.programs import run_program

PID = 'C08'
LEVEL = 'exploration'
RULE = ('The protocol monitor (per endpoint, per stream: SETUP first and once, connection frames on stream 0 only, new '
        'ids start with a request frame of the endpoint\'s parity on an id that is not live, only the frame types the '
        'role allows, positive initial request-n, no PAYLOAD after the own complete flag, nothing after own ERROR / '
        'requester CANCEL / both directions complete, at most one CANCEL, one response) is applied to every run of '
        'five Hypothesis generators: (1) a dedicated race generator - cancels of every kind placed around resolve / '
        'deliver / tick operations in manual and pumped delivery, "deliver the response then cancel before the receiver '
        'runs", handler and publisher failures, lease on/off with requests queued behind a lease, fragmentation, both '
        'roles, requests issued while connect() waits for its transport; (2) the C01 delivery programs; (3) the C05 '
        'multiplexing programs; (4) the C09 cancellation programs; (5) the C17 reconnect histories (every connection of a '
        'client judged separately: nothing of the previous connection may appear on the next); plus, enumerated: channel '
        'endgames - every pairing of seven publisher kinds (none, empty, failing at once, generator, failing async '
        'generator, manual, manual ending in an error) on the two sides x initial credit 1 / max x every sequence of up to '
        '2 (thorough: 3) actions from {request-n, cancel, emit, end} in both directions; plus streams and channels requested '
        'through the awaitable client API (AwaitableRSocket / CollectorSubscriber with a limit_rate). Every frame is also '
        'observed at the moment the endpoint hands it to its send queue: nothing is queued on a request-response or stream '
        'after its requester received the terminal frame. Reception-dependent rules are judged '
        'at the moment the library decided to emit where the harness can know it (request-response CANCEL: the done '
        'callback of the cancelled future), so frames already queued when a peer frame arrives are never blamed. '
        'Non-trivial = the run contains a cancel or error racing other traffic, or lease, or fragmentation; distinct = '
        'program hash.')
ASSUMPTIONS = [
    'recording applications are well behaved (no request/cancel after a terminal signal), so emissions are the library\'s',
    'peers are the library itself (protocol-legal by construction); hostile peers belong to C12',
]


@st.composite
def race_programs(draw):
    frag = draw(gen.frag_pair())
    lease = draw(st.sampled_from([None, None, {'queue': 0}, {'queue': 0}]))
    cfg = {'msg': draw(st.booleans()), 'frag': frag, 'rbuf': draw(gen.rbufs()), 'none_empty': draw(st.booleans())}
    if lease:
        cfg['lease'] = lease
    cfg['exc_style'] = draw(st.sampled_from(['str', 'str', 'str', 'none', 'int', 'nested', 'tuple', 'bytes']))
    connect_race = draw(st.integers(0, 3)) == 0
    if connect_race:
        # requests issued while connect() is still waiting for the transport provider
        cfg['connect_async'] = True
        cfg['provider_delay'] = [draw(st.sampled_from([1, 2, 4]))]
    n = draw(st.integers(1, 5))
    inter = []
    for i in range(n):
        side = 'c' if lease and draw(st.integers(0, 3)) else draw(st.sampled_from(['c', 's']))
        fr_req = frag[0] if side == 'c' else frag[1]
        fr_resp = frag[1] if side == 'c' else frag[0]
        k = draw(st.sampled_from(['rr', 'rr', 'rr', 'fnf', 'st', 'st', 'ch', 'ch']))
        spec = {'k': k, 'side': side, 'req': draw(gen.lens(fr_req, 3))}
        if k == 'rr':
            spec['resp'] = {'mode': draw(st.sampled_from(['now', 'manual', 'manual', 'late', 'fail', 'raise'])),
                            'delay': draw(st.integers(1, 10)), 'p': draw(gen.lens(fr_resp, 3))}
        if k in ('st', 'ch'):
            spec['src'] = draw(st.one_of(gen.manual_src(fr_resp, ends=('flag', 'sep', 'error'), max_frags=3),
                                         gen.lib_src(fr_resp, max_els=5)))
            if spec['src']['kind'] != 'manual' and draw(st.integers(0, 4)) == 0:
                spec['src']['err_at'] = draw(st.integers(0, 5))
            spec['sub'] = draw(gen.sub_spec())
            if draw(st.integers(0, 9)) == 0:
                spec['handler_raises'] = True
        if k == 'ch':
            spec['rsrc'] = draw(st.one_of(st.none(), gen.manual_src(fr_req, ends=('flag', 'sep', 'error'), max_frags=3),
                                          gen.lib_src(fr_req, max_els=5)))
            spec['rsub'] = draw(st.one_of(st.none(), gen.sub_spec()))
            if draw(st.integers(0, 5)) == 0:
                spec['src'] = None
        inter.append(spec)
    single = st.one_of(
        st.just(('start',)), st.just(('start',)),
        st.tuples(st.just('emit'), st.integers(0, 4), st.sampled_from(['resp', 'req']), st.integers(1, 3)),
        st.tuples(st.just('end'), st.integers(0, 4), st.sampled_from(['resp', 'req'])),
        st.tuples(st.just('resolve'), st.integers(0, 4)),
        st.tuples(st.just('cancel'), st.integers(0, 4), st.sampled_from(['resp', 'resp', 'req'])),
        st.tuples(st.just('req'), st.integers(0, 4), st.sampled_from(['resp', 'req']), st.sampled_from([1, 2, 5, gen.MAXN])),
        st.tuples(st.just('tick'), st.integers(1, 3)),
        st.tuples(st.just('adv'), st.integers(1, 20)),
        st.tuples(st.just('deliver'), st.sampled_from(['c', 's']), st.one_of(st.none(), st.integers(1, 80))),
        st.tuples(st.just('regime'), st.sampled_from(['pumped', 'manual'])),
        st.tuples(st.just('block'), st.sampled_from(['c', 's'])),
        st.tuples(st.just('unblock'), st.sampled_from(['c', 's'])),
        st.tuples(st.just('lease'), st.sampled_from([0, 1, 2, 5]), st.sampled_from([1, 50, 1000, 100000])),
    )
    macro = st.one_of(
        # the response is on the requester's doorstep, the cancel comes before its receiver runs
        st.tuples(st.integers(0, 4), st.sampled_from(['c', 's'])).map(
            lambda a: [('regime', 'manual'), ('resolve', a[0]), ('tick', 2), ('deliver', a[1], None), ('cancel', a[0], 'resp'),
                       ('tick', 1)]),
        # the same with a failing responder: an ERROR is on the doorstep when the cancel comes
        st.tuples(st.integers(0, 4), st.sampled_from(['c', 's'])).map(
            lambda a: [('regime', 'manual'), ('failfut', a[0]), ('tick', 2), ('deliver', a[1], None), ('cancel', a[0], 'resp'),
                       ('tick', 1)]),
        # cancel immediately after the request, same tick
        st.integers(0, 4).map(lambda i: [('start',), ('cancel', -1, 'resp')]),
        # completion and cancel in the same tick
        st.integers(0, 4).map(lambda i: [('end', i, 'resp'), ('cancel', i, 'resp'), ('tick', 1)]),
    )
    chunks = draw(st.lists(st.one_of(single.map(lambda o: [o]), single.map(lambda o: [o]), macro), min_size=2, max_size=18))
    ops = [list(o) for ch in chunks for o in ch]
    ops.extend([['start']] * max(0, n - sum(1 for o in ops if o[0] == 'start')))
    if connect_race:
        k = draw(st.integers(1, 3))
        ops = [['start']] * k + [['tick', 1]] + ops[:3] + [['await_connect'], ['tick', 2]] + ops[3:]
    return {'cfg': cfg, 'inter': inter, 'ops': ops, 'gen': 'race'}


def tagged(strategy, tag):
    return strategy.map(lambda p: dict(p, gen=tag))


info = {}


def lease_sig_rewrite(program, tr, vs):
    """REQUEST_N / CANCEL sent for a stream whose request frame is still waiting for a lease (D11) get their own
    narrow signature: the same frames on an id that never carries a request stay 'frame_on_unopened_stream'."""
    if not program.get('cfg', {}).get('lease'):
        return vs
    for v in vs:
        if v['kind'] == 'frame_on_unopened_stream' and v['facts']['side'] == 'c':
            sid, seq = v['facts']['sid'], v['facts']['seq']
            later_request = any(e['f']['sid'] == sid and e['f']['type'] in monitors.REQ_TYPES and e['seq'] > seq
                                for e in tr.world.wire.get('c', []))
            never_sent = not any(e['f']['sid'] == sid and e['f']['type'] in monitors.REQ_TYPES
                                 for e in tr.world.wire.get('c', []))
            if later_request or never_sent:
                v['sig'] = '%s:frame_before_request:lease_blocked:%s' % (PID, v['facts']['type'])
    return vs


def reconnect_programs():
    """C17's reconnect histories (endings, pending requests still queued behind a writer that stopped draining, requests
    issued during the reconnect), judged here by the role monitor on every connection separately."""
    from harness.checks import c17
    def early(case):
        # every other history: a reconnect is requested while the first connect() is still in its transport's handshake
        if not case.get('lease') and not case.get('early_reconnect') and len(case['endings']) % 2:
            n = len(case['endings'])
            case = dict(case, early_reconnect={'connect_ticks': (5, 30, 60)[n % 3], 'at': n % 3, 'times': 1 + (n // 2) % 2})
        return case

    return c17.cases().map(early).map(lambda case: dict(c17.build(case)[0], gen='reconnect'))


# ---- the awaitable client API (AwaitableRSocket + CollectorSubscriber with limit_rate) as the requesting application

def awaitable_cases():
    return st.fixed_dictionaries({'model': st.sampled_from(['st', 'st', 'ch']), 'n': st.integers(0, 9),
                                  'limit_rate': st.sampled_from([1, 2, 3, 4, 5, gen.MAXN]), 'end': st.sampled_from(['flag', 'sep']),
                                  'kind': st.sampled_from(['gen', 'agen', 'manual']), 'msg': st.booleans()}).map(lambda c: {'awaitable': c})


def awaitable_program(c):
    from harness import app as A
    spec = {'k': c['model'], 'side': 'c', 'req': [6, 2], 'src': {'kind': c['kind'], 'els': [[5, 0]] * c['n'], 'end': c['end'], 'awaits': 0},
            'sub': {'n0': c['limit_rate'], 'refill': 0}}
    if c['model'] == 'ch':
        spec['rsrc'] = None
        spec['rsub'] = {'n0': gen.MAXN, 'refill': 0}

    def go(scn):
        from rsocket.awaitable.awaitable_rsocket import AwaitableRSocket
        import asyncio as aio
        sock = scn.sock['c']
        d, m = A.payload_bytes(0, A.TAG_REQ, 0, spec['req'])
        aw = AwaitableRSocket(sock)
        coro = aw.request_stream(A.mk_payload(d, m), limit_rate=c['limit_rate']) if c['model'] == 'st' else \
            aw.request_channel(A.mk_payload(d, m), limit_rate=c['limit_rate'])
        task = aio.ensure_future(coro)
        task.add_done_callback(lambda t: scn.world.ev('c', 'awaitable_done', n=(len(t.result()) if not t.cancelled() and not t.exception() else -1)))
        sid = 1  # the coroutine allocates its stream when the task first runs: the first id of a fresh client
        scn.st[0] = {'spec': spec, 'uid': 0, 'pub': {}, 'libpub': {}, 'sub': {}, 'hfut': None, 'fut': None, 'sid': sid}
        scn.started.append(0)
        scn.world.bind('c', sid, 0)

    ops = [['tick', 3], ['call', 'go'], ['tick', 3]]
    if c['kind'] == 'manual':
        ops += [['emit', 0, 'resp', 20], ['end', 0, 'resp']]
    ops += [['tick', 6], ['settle']]
    return {'gen': 'awaitable', 'cfg': {'msg': c['msg'], 'frag': [None, None], 'rbuf': [1024, 1024]}, 'inter': [spec], 'ops': ops,
            'heal': False, '_actions': {'go': go}}


def prop(program):
    if 'awaitable' in program:
        program = awaitable_program(program['awaitable'])
    p = program
    if p.get('gen') == 'c05':
        from harness.checks import c05
        p = c05.sanitize(p)
    tr = run_program(p)
    vs = monitors.mon_protocol(tr, PID)
    vs = lease_sig_rewrite(p, tr, vs)
    vs += monitors.mon_wire_selfcheck(tr, PID)
    ops = p['ops']
    has_cancel = any(o[0] == 'cancel' for o in ops)
    has_err = any((i.get('src') or {}).get('end') == 'error' or (i.get('rsrc') or {}).get('end') == 'error' or
                  i.get('resp', {}).get('mode') in ('fail', 'raise') for i in p['inter'])
    fragm = any(e['f'].get('follows') for side in ('c', 's') for e in tr.world.wire.get(side, []))
    lease = bool(p['cfg'].get('lease'))
    info['nt'] = has_cancel or has_err or fragm or lease
    info['classes'] = ['gen=' + p.get('gen', '?'), 'connect_race=%s' % bool(p['cfg'].get('connect_async')), 'cancel=%s' % has_cancel, 'app_error=%s' % has_err,
                       'fragmentation=%s' % fragm, 'lease=%s' % lease, 'quiescent=%s' % tr.quiet]
    return vs


def classify(case, vs):
    return info.get('nt', False), info.get('classes', ()), None


REGRESSION = [
    # D9: response delivered, cancel before the requester's receiver runs
    {'gen': 'race', 'cfg': {'msg': False, 'frag': [None, None], 'rbuf': [1024, 1024]},
     'inter': [{'k': 'rr', 'side': 'c', 'req': [3, 0], 'resp': {'mode': 'manual', 'p': [5, 0]}}],
     'ops': [['start'], ['tick', 3], ['regime', 'manual'], ['resolve', 0], ['tick', 2], ['deliver', 's', None],
             ['cancel', 0, 'resp'], ['tick', 2]]},
    # D11: request(n) and cancel on a lease-blocked stream
    {'gen': 'race', 'cfg': {'msg': False, 'frag': [None, None], 'rbuf': [1024, 1024], 'lease': {'queue': 0}},
     'inter': [{'k': 'st', 'side': 'c', 'req': [3, 0], 'src': {'kind': 'manual', 'els': [[5, 0], [5, 0]], 'end': 'sep'},
                'sub': {'n0': 1, 'refill': 0}}],
     'ops': [['tick', 3], ['start'], ['req', 0, 'resp', 2], ['tick', 2], ['lease', 5, 100000], ['tick', 3]]},
    # D12: channel requester cancels, then its own publisher keeps sending
    {'gen': 'race', 'cfg': {'msg': False, 'frag': [None, None], 'rbuf': [1024, 1024]},
     'inter': [{'k': 'ch', 'side': 'c', 'req': [3, 0], 'src': {'kind': 'manual', 'els': [[5, 0]], 'end': 'sep'},
                'sub': {'n0': 5, 'refill': 0}, 'rsrc': {'kind': 'manual', 'els': [[4, 0], [4, 0]], 'end': 'sep'},
                'rsub': {'n0': 5, 'refill': 0}}],
     'ops': [['start'], ['tick', 4], ['cancel', 0, 'resp'], ['tick', 2], ['emit', 0, 'req', 1], ['tick', 2]]},
    # D21: channel responder whose generator publisher failed at once; a later REQUEST_N must not make it fail (send ERROR) again
    {'gen': 'race', 'cfg': {'msg': False, 'frag': [None, None], 'rbuf': [1024, 1024]},
     'inter': [{'k': 'ch', 'side': 'c', 'req': [0, 0], 'src': {'kind': 'gen', 'els': [], 'end': 'flag', 'awaits': 0, 'err_at': 0},
                'sub': {'n0': 5, 'refill': 0}, 'rsrc': {'kind': 'manual', 'els': [], 'end': 'flag'},
                'rsub': {'n0': 5, 'refill': 0}}],
     'ops': [['start'], ['tick', 4], ['req', 0, 'resp', 1], ['tick', 3]]},
    # D22: the requester cancels a channel whose responder has no publisher (it completed its side at once)
    {'gen': 'race', 'cfg': {'msg': False, 'frag': [None, None], 'rbuf': [1024, 1024]},
     'inter': [{'k': 'ch', 'side': 'c', 'req': [0, 0], 'src': None, 'sub': {'n0': 5, 'refill': 0},
                'rsrc': {'kind': 'gen', 'els': [], 'end': 'flag', 'awaits': 0}, 'rsub': {'n0': 5, 'refill': 0}}],
     'ops': [['start'], ['tick', 2], ['block', 'c'], ['regime', 'manual'], ['tick', 2], ['deliver', 's', None], ['cancel', 0, 'resp'],
             ['tick', 2], ['unblock', 'c'], ['regime', 'pumped'], ['tick', 3]]},
    # ... and one that completed: the elements must not be sent a second time
    {'gen': 'race', 'cfg': {'msg': False, 'frag': [None, None], 'rbuf': [1024, 1024]},
     'inter': [{'k': 'ch', 'side': 'c', 'req': [0, 0], 'src': {'kind': 'gen', 'els': [[4, 0], [5, 0]], 'end': 'sep', 'awaits': 0},
                'sub': {'n0': 5, 'refill': 0}, 'rsrc': {'kind': 'manual', 'els': [[3, 0]], 'end': 'sep'},
                'rsub': {'n0': 5, 'refill': 0}}],
     'ops': [['start'], ['tick', 4], ['req', 0, 'resp', 3], ['tick', 3]]},
]


# ---- channel endgames: every pairing of publisher kinds on the two sides, followed by every short sequence of actions

CH_SRC = [None,
          {'kind': 'gen', 'els': [], 'end': 'flag', 'awaits': 0},
          {'kind': 'gen', 'els': [], 'end': 'flag', 'awaits': 0, 'err_at': 0},
          {'kind': 'gen', 'els': [[4, 0], [5, 0]], 'end': 'sep', 'awaits': 0},
          {'kind': 'agen', 'els': [[4, 0]], 'end': 'sep', 'awaits': 1, 'err_at': 1},
          {'kind': 'manual', 'els': [[4, 0], [3, 0]], 'end': 'sep'},
          {'kind': 'manual', 'els': [[4, 0]], 'end': 'error'}]
CH_ACTS = [['req', 0, 'resp', 1], ['req', 0, 'req', 2], ['cancel', 0, 'resp'], ['cancel', 0, 'req'], ['emit', 0, 'resp', 2],
           ['emit', 0, 'req', 2], ['end', 0, 'resp'], ['end', 0, 'req'], ['tick', 2]]


def endgame_programs(depth):
    import itertools
    for side in ('c', 's'):
        for src, rsrc in itertools.product(CH_SRC, CH_SRC):
            for n0 in (1, gen.MAXN):
                for d in range(1, depth + 1):
                    for acts in itertools.product(range(len(CH_ACTS)), repeat=d):
                        if n0 == gen.MAXN and d == depth and acts[0] % 2:
                            continue  # thin out the largest layer
                        ops = [['start'], ['tick', 3]]
                        for a in acts:
                            ops.append(list(CH_ACTS[a]))
                        ops += [['tick', 3]]
                        yield {'gen': 'endgame', 'cfg': {'msg': False, 'frag': [None, None], 'rbuf': [1024, 1024]},
                               'inter': [{'k': 'ch', 'side': side, 'req': [3, 0], 'src': src, 'sub': {'n0': n0, 'refill': 0},
                                          'rsrc': rsrc, 'rsub': {'n0': n0, 'refill': 0}}], 'ops': ops}


def endgame_shard(tier, seed, part, parts):
    common.use_repo()
    stats = common.Stats()
    known = common.Known(PID)
    depth = 2 if tier == 'quick' else 3
    n = 0
    for i, p in enumerate(endgame_programs(depth)):
        if i % parts != part:
            continue
        vs = prop(p)
        n += 1
        stats.evaluations += 1
        if info.get('nt'):
            stats.nontrivial.add(common.case_hash(p))
            if len(stats.samples) < 1:
                stats.samples.append(p)
        for v in common.judge(stats, known, p, vs):
            if not any(v['sig'] == vv['sig'] for vv, _ in stats.violations):
                stats.violations.append((v, p))
    stats.classes['gen=endgame'] += n
    return stats


def shard(tier, seed, n, which):
    common.use_repo()
    stats = common.Stats()
    known = common.Known(PID)
    if which == 'regression':
        for p in REGRESSION:
            vs = prop(p)
            stats.case(p, info.get('nt', False), ['regression'])
            for v in common.judge(stats, known, p, vs):
                stats.violations.append((v, p))
        return stats
    if which == 'race':
        strat = race_programs()
    elif which == 'c01':
        from harness.checks import c01
        strat = tagged(c01.programs(), 'c01')
    elif which == 'c05':
        from harness.checks import c05
        strat = tagged(c05.programs(), 'c05')
    elif which == 'c09':
        from harness.checks import c09
        strat = tagged(c09.programs(), 'c09')
    elif which == 'reconnect':
        strat = reconnect_programs()
    elif which == 'awaitable':
        strat = awaitable_cases()
    common.hyp_search(stats, known, strat, prop, n, seed, classify=classify, shrink=True)
    return stats


def run(tier, seed):
    t0 = time.time()
    total = 3200 if tier == 'quick' else 80000
    seeds = common.shard_seeds(seed, common.NPROC)
    plan = ['race'] * 7 + ['c01'] * 3 + ['c05'] * 2 + ['c09'] * 2 + ['reconnect', 'awaitable']
    try:
        from harness.checks import c09  # noqa
    except ImportError:
        plan = ['race'] * 10 + ['c01'] * 3 + ['c05'] * 3
    jobs = [dict(tier=tier, seed=0, n=0, which='regression')]
    jobs += [dict(tier=tier, seed=s, n=total // len(plan), which=w) for s, w in zip(seeds, plan)]
    jobs = [('shard', j) for j in jobs] + [('endgame_shard', dict(tier=tier, seed=seed, part=i, parts=16)) for i in range(16)]
    stats = common.run_shards_multi(__name__, jobs)
    return common.finish(PID, tier, seed, LEVEL, RULE, stats, t0, ASSUMPTIONS)


def replay(path):
    common.use_repo()
    return common.report_replay(PID, path, prop(common.load_replay(path)))
