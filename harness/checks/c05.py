"""C05 Per-stream wire order and fragment contiguity under multiplexing (Engine B, DESIGN 3/C05)."""
import json
import time

from hypothesis import strategies as st

from harness import common, gen, monitors
from harness.programs import run_program

PID = 'C05'
LEVEL = 'exploration'
RULE = ('(Plus real endpoints over the repository\'s own message transports with fragmentation on, in particular those that queue the frame objects they are handed: what arrives is what was sent.) Hypothesis-generated SimNet programs: 1-4 interactions (stream responders, both channel directions, '
        'request-response responders; either side) with manual publishers queuing bursts of 1-5 elements of 0-6 '
        'fragments each, completion / error / requester cancel, sender drain blocked and unblocked by operations, '
        'fragment sizes 64-1024 or none, byte-stream and message framing; in a quarter of the programs the first requests, '
        'REQUEST_N and cancels are queued while connect() is still waiting for its transport (SETUP is then inserted in '
        'front of them). Plus wide programs: 17-48 requests with multi-fragment payloads queued at once (as many partial '
        'frames in flight as streams), and reconnect histories in which a fragmented request from the server is cut off by the '
        'end of the connection (nothing received on the next connection is merged with what was left over). Oracle: per stream the send log has '
        'contiguous fragment trains and reassembles (independent reassembler) to exactly the frames the application '
        'handed over, in hand-over order, and the peer application receives the same sequence. Non-trivial = at '
        'some hand-over the send queue already held an unfinished frame of the same stream and one of the two had '
        '>= 2 fragments; distinct = distinct program hash.')
ASSUMPTIONS = [
    'virtual-time single-threaded asyncio loop; orderings inside one loop iteration follow asyncio FIFO',
    'real TransportTCP over a harness StreamReader/writer, and a harness subclass of AbstractMessagingTransport',
    'stream id of an issued request is read from StreamControl._current_stream_id / requester.stream_id',
]


@st.composite
def programs(draw):
    frag = draw(gen.frag_pair())
    if frag[0] is None and frag[1] is None:
        frag[draw(st.integers(0, 1))] = draw(st.sampled_from([64, 65, 80, 128]))
    cfg = {'msg': draw(st.booleans()), 'frag': frag, 'rbuf': draw(gen.rbufs()),
           'none_empty': draw(st.booleans())}
    n = draw(st.integers(1, 4))
    inter = []
    for i in range(n):
        side = draw(st.sampled_from(['c', 's']))
        fr_req = frag[0] if side == 'c' else frag[1]
        fr_resp = frag[1] if side == 'c' else frag[0]
        k = draw(st.sampled_from(['st', 'st', 'ch', 'ch', 'rr']))
        spec = {'k': k, 'side': side, 'req': draw(gen.lens(fr_req, 3))}
        if k == 'rr':
            spec['resp'] = {'mode': draw(st.sampled_from(['now', 'manual', 'manual'])), 'p': draw(gen.lens(fr_resp, 5))}
        else:
            spec['src'] = draw(gen.manual_src(fr_resp))
            spec['sub'] = {'n0': draw(st.sampled_from([gen.MAXN, gen.MAXN, 3, 7])), 'refill': draw(st.sampled_from([0, 1, 2]))}
            if k == 'ch':
                if draw(st.booleans()):
                    spec['rsrc'] = draw(gen.manual_src(fr_req))
                else:
                    spec['rsrc'] = None
                spec['rsub'] = {'n0': draw(st.sampled_from([gen.MAXN, gen.MAXN, 2, 5])), 'refill': draw(st.sampled_from([0, 1]))}
        inter.append(spec)
    ops = []
    connect_race = draw(st.integers(0, 3)) == 0
    if connect_race:
        # frames queued while connect() is still waiting for the transport provider: SETUP is inserted in front of them
        cfg['connect_async'] = True
        cfg['provider_delay'] = [draw(st.sampled_from([1, 2, 4]))]
        k = draw(st.integers(1, n))
        for i in range(k):
            inter[i]['side'] = 'c'
            ops.append(['start'])
            if inter[i]['k'] in ('st', 'ch') and draw(st.booleans()):
                ops.append(['req', i, 'resp', draw(st.sampled_from([1, 2, 5]))])
            if inter[i]['k'] == 'st' and draw(st.integers(0, 3)) == 0:
                ops.append(['cancel', i, 'resp'])
        ops += [['tick', 1], ['await_connect'], ['tick', 2]]
        for i in range(k, n):
            ops.append(['start'])
    else:
        for i in range(n):
            ops.append(['start'])
            if draw(st.booleans()):
                ops.append(['tick', draw(st.integers(1, 4))])
    ops.append(['tick', 4])
    op = st.one_of(
        st.tuples(st.just('emit'), st.integers(0, 3), st.sampled_from(['resp', 'resp', 'req']), st.integers(1, 5)),
        st.tuples(st.just('emit'), st.integers(0, 3), st.sampled_from(['resp', 'resp', 'req']), st.integers(1, 5)),
        st.tuples(st.just('end'), st.integers(0, 3), st.sampled_from(['resp', 'req'])),
        st.tuples(st.just('resolve'), st.integers(0, 3)),
        st.tuples(st.just('block'), st.sampled_from(['c', 's'])),
        st.tuples(st.just('unblock'), st.sampled_from(['c', 's'])),
        st.tuples(st.just('tick'), st.integers(1, 3)),
        st.tuples(st.just('req'), st.integers(0, 3), st.sampled_from(['resp', 'req']), st.sampled_from([1, 2, 5, gen.MAXN])),
        st.tuples(st.just('cancel'), st.integers(0, 3), st.just('resp')),
    )
    tail = [[list(o)] for o in draw(st.lists(op, min_size=3, max_size=25))]
    if draw(st.integers(0, 3)) == 0:
        # a link that stalls in the middle of a train for several keepalive periods: KEEPALIVE frames (stream 0) pile up
        # behind the partly sent frame and end up between its fragments
        cfg['ka'] = draw(st.sampled_from([0.02, 0.05]))
        cfg['life'] = 100000.0
        for _ in range(draw(st.integers(1, 2))):
            side = draw(st.sampled_from(['c', 's']))
            i = draw(st.integers(0, 3))
            stall = [['block', side], ['emit', i, draw(st.sampled_from(['resp', 'req'])), 2], ['resolve', i], ['tick', 2],
                     ['adv', draw(st.sampled_from([60, 150, 400]))], ['unblock', side], ['tick', 3]]
            tail.insert(draw(st.integers(0, len(tail))), stall)
    if draw(st.integers(0, 3)) == 0:
        # application code that fails on another stream while trains are in flight: a request whose handler raises, issued
        # (once or twice) somewhere in the middle of the traffic
        for _ in range(draw(st.integers(1, 2))):
            inter.append({'k': 'rr', 'side': draw(st.sampled_from(['c', 's'])), 'req': [3, 1], 'resp': {'mode': 'raise', 'p': [1, 0]}})
            at = draw(st.integers(0, len(tail)))
            burst = [['start']]
            if draw(st.booleans()):
                # right behind a large element, so that it is sent between that element's fragments
                burst = [['emit', draw(st.integers(0, 3)), draw(st.sampled_from(['resp', 'req'])), 1], ['start']]
            tail.insert(at, burst)
    ops.extend(o for ch in tail for o in ch)
    return {'cfg': cfg, 'inter': inter, 'ops': ops}


def sanitize(program):
    """Requester cancel on channels is D12 territory (C08/C09/C10); C05 cancels plain streams only."""
    kinds = [i['k'] for i in program['inter']]
    n = len(kinds)
    ops = []
    for o in program['ops']:
        if o[0] == 'cancel' and n and kinds[o[1] % n] != 'st':
            continue
        ops.append(o)
    p = dict(program)
    p['ops'] = ops
    return p


info = {}


def nontrivial_from_trace(tr):
    """At some hand-over the send queue already held an unfinished frame of the same stream, one of the two being
    multi-fragment."""
    for side in ('c', 's'):
        per, open_train, _ = monitors.reassemble(tr.world.wire.get(side, []))
        exp = monitors.expected_wire(tr, side)
        for sid, rec in exp.items():
            frames = [f for f in per.get(sid, []) if f['type'] not in ('REQUEST_N', 'CANCEL')]
            want = rec['pub']
            for i in range(1, min(len(want), len(frames))):
                prev, cur = frames[i - 1], frames[i]
                if prev.get('last_seq', 0) > want[i]['app_seq'] and (prev['fragments'] >= 2 or cur['fragments'] >= 2):
                    return True
    return False


def prop(program):
    program = sanitize(program)
    tr = run_program(program)
    vs = monitors.mon_wire_order(tr, PID)
    vs += [v for v in monitors.mon_delivery(tr, PID)]
    vs += monitors.mon_no_loop_errors(tr, PID)
    info['nt'] = nontrivial_from_trace(tr)
    info['quiet'] = tr.quiet
    nfr = max([f.get('fragments', 1) for side in ('c', 's')
               for fs in monitors.reassemble(tr.world.wire.get(side, []))[0].values() for f in fs] or [1])
    info['classes'] = ['framing=' + ('message' if program['cfg']['msg'] else 'bytes'),
                       'streams=%d' % len(program['inter']),
                       'max_fragments=%s' % (nfr if nfr < 4 else '4+'),
                       'blocked_drain=%s' % any(o[0] == 'block' for o in program['ops']),
                       'queued_before_connect=%s' % bool(program['cfg'].get('connect_async')),
                       'quiescent=%s' % tr.quiet]
    return vs


def glue_cases():
    """Real endpoints over the repository's own message transports (in-memory websocket, harness/glue_e2e.py) with
    fragmentation on and payloads of several fragments - in particular the transports that keep the frame objects they are
    handed in a queue of their own (websockets, channels) and serialise them later."""
    from harness.checks import c01

    def force(case):
        case = dict(case, frag=case['frag'] or 64)
        if case['client'] != 'aioquic' and len(case['reqs']) % 2:
            case['client'], case['server'] = 'websockets', ('channels', 'websockets')[len(case['reqs']) // 2 % 2]
        reqs = [list(r) for r in case['reqs']]
        for r in reqs:
            if r[0] in ('rr', 'fnf') and r[1] < 130:
                r[1] = r[1] + 130
            if r[0] == 'st':
                r[1], r[2] = max(r[1], 2), max(r[2], 40)
        case['reqs'] = reqs
        return case

    return c01.glue_cases().map(force)


def glue_prop(case):
    from harness.checks import c01
    vs = c01.glue_prop(case, pid=PID)
    info['nt'] = True
    info['classes'] = ['part=glue', 'client=' + case['client'], 'server=' + case['server']]
    return vs


def reconnect_cases():
    """C17's reconnect histories with fragmentation and a server that is half-way through a fragmented request when the
    connection ends: what arrives on the next connection is not merged with anything left over from the previous one."""
    from harness.checks import c17

    def force(case):
        case = dict(case, frag=64, lease=False, endings=[dict(e) for e in case['endings']])
        for e in case['endings']:
            if e['kind'] != 'ka_timeout':
                e['server_partial'] = 'element' if ('ch' in e['pending'] and len(e['pending']) % 2 == 0) else True
        return {'reconnect': case}

    return c17.cases().map(force)


def reconnect_prop(wrapped):
    from harness.checks import c17
    case = wrapped['reconnect']
    prog, plan = c17.build(case)
    tr = run_program(prog)
    probe_uids = [u for p_ in plan for u in p_['probes']]
    skip = set(range(len(prog['inter']))) - set(probe_uids)
    vs = monitors.mon_delivery(tr, PID, require_complete=False, skip_uids=skip)
    vs += monitors.mon_no_loop_errors(tr, PID)
    info['nt'] = any(e.get('server_partial') for e in case['endings'])
    info['classes'] = ['part=reconnect', 'reconnects=%d' % len(case['endings'])]
    return vs


def classify(case, vs):
    return info.get('nt', False), info.get('classes', ()), None


REGRESSION = [
    # D1: three 150-byte elements queued at once at fragment size 64
    {'cfg': {'msg': False, 'frag': [64, 64], 'rbuf': [1024, 1024]},
     'inter': [{'k': 'st', 'side': 'c', 'req': [3, 0],
                'src': {'kind': 'manual', 'els': [[150, 0], [150, 0], [150, 0]], 'end': 'sep'}, 'sub': {'n0': gen.MAXN}}],
     'ops': [['start'], ['tick', 3], ['emit', 0, 'resp', 3], ['tick', 2]]},
    # completion queued right behind a multi-fragment element
    {'cfg': {'msg': True, 'frag': [64, 64], 'rbuf': [1024, 1024]},
     'inter': [{'k': 'st', 'side': 's', 'req': [3, 0],
                'src': {'kind': 'manual', 'els': [[200, 10]], 'end': 'sep'}, 'sub': {'n0': gen.MAXN}}],
     'ops': [['start'], ['tick', 3], ['block', 'c'], ['emit', 0, 'resp', 1], ['end', 0, 'resp'], ['unblock', 'c'], ['tick', 2]]},
    # one element larger than a single frame can be (2^24 - 1 bytes): only fragmentation can carry it, and the receiver has to
    # put all of it together again (a fixed point; sizes of this order are not searched)
    {'cfg': {'msg': False, 'frag': [1000000, 1000000], 'rbuf': [65536, 65536]},
     'inter': [{'k': 'st', 'side': 'c', 'req': [3, 0], 'src': {'kind': 'manual', 'els': [[18000000 + 4000, 10]], 'end': 'sep'},
                'sub': {'n0': gen.MAXN}},
               {'k': 'rr', 'side': 's', 'req': [18500000 + 70000, 0], 'resp': {'mode': 'now', 'p': [5, 0]}}],
     'ops': [['start'], ['tick', 3], ['emit', 0, 'resp', 1], ['start'], ['tick', 4]]},
]


def shard(tier, seed, n, wide=False):
    common.use_repo()
    stats = common.Stats()
    known = common.Known(PID)
    if n is None:
        for p in REGRESSION:
            vs = prop(p)
            stats.case(p, info.get('nt', False), ['regression'])
            for v in common.judge(stats, known, p, vs):
                stats.violations.append((v, p))
        return stats
    if wide == 'reconnect':
        common.hyp_search(stats, known, reconnect_cases(), reconnect_prop, n, seed, classify=classify, shrink=False)
        return stats
    if wide == 'glue':
        common.hyp_search(stats, known, glue_cases(), glue_prop, n, seed, classify=classify, shrink=True)
        return stats
    if wide:
        from harness.checks import c01
        common.hyp_search(stats, known, c01.wide_programs(), prop, n, seed, classify=classify, shrink=False)
        return stats
    common.hyp_search(stats, known, programs(), prop, n, seed, classify=classify, shrink=True)
    return stats


def run(tier, seed):
    t0 = time.time()
    total = 3200 if tier == 'quick' else 48000
    nsh = common.NPROC
    jobs = [dict(tier=tier, seed=0, n=None)] + [dict(tier=tier, seed=s, n=total // nsh) for s in common.shard_seeds(seed, nsh)]
    jobs += [dict(tier=tier, seed=s + 17, n=(32 if tier == 'quick' else 800) // 4, wide=True) for s in common.shard_seeds(seed, 4)]
    jobs += [dict(tier=tier, seed=s + 29, n=(200 if tier == 'quick' else 4000) // 4, wide='reconnect') for s in common.shard_seeds(seed, 4)]
    jobs += [dict(tier=tier, seed=s + 43, n=(240 if tier == 'quick' else 6000) // 4, wide='glue') for s in common.shard_seeds(seed, 4)]
    stats = common.run_shards(__name__, 'shard', jobs)
    return common.finish(PID, tier, seed, LEVEL, RULE, stats, t0, ASSUMPTIONS)


def replay(path):
    obj = json.load(open(path))
    case = obj['case'] if 'case' in obj else obj
    vs = reconnect_prop(case) if 'reconnect' in case else (glue_prop(case) if case.get('glue') else prop(case))
    known = common.Known(PID)
    bad = [v for v in vs if not known.matches(v)]
    for v in vs:
        print(('VIOLATION' if v in bad else 'KNOWN-FINDING:') + ' property=%s replay=%s sig=%s facts=%s' % (
            PID, path, v['sig'], common.jdump(v['facts'])[:500]))
    return 1 if bad else 0
