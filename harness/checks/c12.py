"""C12 Hostile input and failing application code are contained (Engine C + B, + atheris in the thorough tier)."""
import itertools
import signal
import struct
import time

from hypothesis import strategies as st

from harness import common, gen, monitors, refcodec
from harness.common import viol
from harness.programs import run_program

PID = 'C12'
LEVEL = 'fault_enumeration'
RULE = ('(i) arbitrary byte strings (Hypothesis binary, boundary-biased) written unframed into a byte-stream connection '
        'with arbitrary chunking and as whole messages (including the empty message) into a message connection, against '
        'a real server and a real client; (ii) well-delimited sequences mixing junk bodies with decodable but '
        'protocol-violating frames (frames for unknown streams, wrong type for the role, second SETUP, RESUME / '
        'RESUME_OK, REQUEST_N 0, PAYLOAD / CANCEL / REQUEST_N on stream 0, LEASE to a non-leasing endpoint, KEEPALIVE on '
        'a stream, continuation without a start, continuation of a different type, request on a live id, unknown error '
        'code, ignore-flag frames of unknown type, METADATA_PUSH on a stream, wrong id parity) interleaved with healthy '
        'interactions and followed by a probe request-response on a fresh id; the same hostile messages are also played by '
        'hand to a real server / client that sits on one of the repository\'s websocket transports (stand-in websocket '
        'object), followed by a probe in each direction; a lease-honouring client with 1-4 requests waiting is sent LEASE frames of every '
        'kind (fewer requests than are waiting, none, zero time-to-live, maximal values) and finally one that covers '
        'everything: processing terminates and every request is sent; (iii) the complete matrix of application '
        'faults: every RequestHandler entry point raising, returned future failing, a generator factory failing before there is a generator, publisher raising in subscribe / '
        'request, generator / async generator / observable failing at element k, subscriber callbacks raising, on_setup '
        'raising - x requester side x framing x fragmentation - each beside a healthy bystander stream and followed by a '
        'probe. Oracle: processing terminates (a 60 s watchdog turns a synchronous endless loop into a reported '
        'violation), sender and receiver tasks are still running, no exception reached the loop handler, everything '
        'emitted in response to bad input is nothing or an ERROR frame on the offending stream id (stream 0 for '
        'connection-level frames), healthy interactions satisfy the delivery oracle, the probe gets exactly its scripted '
        'answer. Non-trivial = >= 1 decodable protocol-violating frame or raising entry point, with a probe; distinct = '
        'program hash.')
ASSUMPTIONS = ['on a byte stream, garbage with a wrong length prefix legitimately desynchronises framing: there only '
               'termination, liveness and absence of unhandled exceptions are judged',
               'reference codec encodes the hostile frames']

OTHER = {'c': 's', 's': 'c'}
HOSTILE_BASE = 2001


_stuck = []


def run_guarded(program, seconds=20):
    """Programs take milliseconds; one that is still running after `seconds` of wall clock is stuck in the code under
    test (the guard exception derives from BaseException, so a broad except in that code cannot swallow it)."""
    from harness.common import CaseTimeout
    if _stuck:
        # one stuck case costs `seconds` of wall clock; the shard reports it and stops exploring
        return None, viol('processing_does_not_terminate', 'C12:does_not_terminate', note='(not re-run after the first)')
    try:
        return run_program(program, timeout=seconds), None
    except CaseTimeout as e:
        if 'decoder produced' not in str(e):
            _stuck.append(True)
        return None, viol('processing_does_not_terminate', 'C12:does_not_terminate', note=str(e) or 'guard fired after %ds' % seconds)


# ------------------------------------------------------------------------------------------- (ii) hostile frames

def _reserved_bit(s, which, respond):
    if which == 'ka_pos':
        b = bytearray(refcodec.encode({'type': 'KEEPALIVE', 'sid': 0, 'respond': respond, 'position': 5, 'data': b'k'}))
        b[6] |= 0x80
        if respond:
            b[6:14] = b'\xff' * 8
    elif which == 'sid_rr':
        b = bytearray(refcodec.encode({'type': 'REQUEST_RESPONSE', 'sid': s, 'data': b'rb', 'metadata': None}))
        b[0] |= 0x80
    elif which == 'n_request_n':
        b = bytearray(refcodec.encode({'type': 'REQUEST_N', 'sid': s, 'n': 3}))
        b[6] |= 0x80
    elif which == 'n_stream':
        b = bytearray(refcodec.encode({'type': 'REQUEST_STREAM', 'sid': s, 'n': 3, 'data': b'rb', 'metadata': None}))
        b[6] |= 0x80
    elif which == 'lease_ttl':
        b = bytearray(refcodec.encode({'type': 'LEASE', 'sid': 0, 'ttl': 1000, 'count': 2, 'metadata': None}))
        b[6] |= 0x80
    else:
        b = bytearray(refcodec.encode({'type': 'LEASE', 'sid': 0, 'ttl': 1000, 'count': 2, 'metadata': None}))
        b[10] |= 0x80
    return bytes(b)


def hostile_frames(raw_side):
    """Strategy for one hostile op: (ops list, set of offending stream ids)."""
    sid = st.integers(HOSTILE_BASE, HOSTILE_BASE + 60)
    small = st.binary(max_size=12)

    def fr(v):
        return [['rawframe', v]], {v.get('sid', 0)}

    opts = [
        st.builds(lambda s, d: fr({'type': 'PAYLOAD', 'sid': s, 'next': True, 'complete': False, 'data': d, 'metadata': None}), sid, small),
        st.builds(lambda s, n: fr({'type': 'REQUEST_N', 'sid': s, 'n': n}), sid, st.sampled_from([0, 1, 5, 0x7FFFFFFF])),
        st.builds(lambda s: fr({'type': 'CANCEL', 'sid': s}), sid),
        st.builds(lambda s, c: fr({'type': 'ERROR', 'sid': s, 'code': c, 'data': b'x'}), st.one_of(sid, st.just(0)),
                  st.sampled_from([0x201, 0x999, 0x101, 0x0, 0xFFFFFFFE])),
        st.just(fr({'type': 'SETUP', 'sid': 0, 'keepalive': 500, 'lifetime': 1000, 'metadata_mime': b'a/b', 'data_mime': b'c/d',
                    'metadata': None, 'data': b'again'})),
        st.just(fr({'type': 'RESUME', 'sid': 0, 'token': b'tok', 'last_server': 1, 'first_client': 2})),
        st.just(fr({'type': 'RESUME_OK', 'sid': 0, 'position': 3})),
        st.builds(lambda t: fr({'type': t, 'sid': 0, **({'n': 3} if t == 'REQUEST_N' else {}),
                                **({'next': True, 'data': b'zero', 'metadata': None} if t == 'PAYLOAD' else {})}),
                  st.sampled_from(['PAYLOAD', 'CANCEL', 'REQUEST_N'])),
        st.builds(lambda n, t: fr({'type': 'LEASE', 'sid': 0, 'ttl': t, 'count': n, 'metadata': None}),
                  st.sampled_from([0, 1, 1000]), st.sampled_from([0, 1, 100000])),
        st.builds(lambda s, r: fr({'type': 'KEEPALIVE', 'sid': s, 'respond': r, 'position': 0, 'data': b'ka'}), sid, st.booleans()),
        st.builds(lambda s, d: fr({'type': 'PAYLOAD', 'sid': s, 'follows': True, 'next': True, 'data': d, 'metadata': None}), sid, small),
        st.builds(lambda s: ([['rawframe', {'type': 'REQUEST_STREAM', 'sid': s, 'follows': True, 'n': 1, 'data': b'a', 'metadata': None}],
                              ['rawframe', {'type': 'REQUEST_RESPONSE', 'sid': s, 'data': b'b', 'metadata': None}]], {s}), sid),
        st.builds(lambda s, m: fr({'type': 'METADATA_PUSH', 'sid': s, 'metadata': m}), sid, st.binary(min_size=1, max_size=10)),
        st.builds(lambda s, d: fr({'type': 'REQUEST_FNF', 'sid': s, 'data': d, 'metadata': None}), sid, small),
        st.builds(lambda s, d: fr({'type': 'REQUEST_RESPONSE', 'sid': s, 'data': d, 'metadata': None}), sid, small),
        st.builds(lambda s: fr({'type': 'REQUEST_STREAM', 'sid': s, 'n': 0, 'data': b'n0', 'metadata': None}), sid),
        st.builds(lambda s: fr({'type': 'REQUEST_CHANNEL', 'sid': s, 'n': 0, 'data': b'n0', 'metadata': None, 'complete': True}), sid),
        # junk bodies, well delimited
        st.builds(lambda b: ([['rawbody', b]], {struct.unpack('>I', (b + b'\x00' * 4)[:4])[0] & 0x7FFFFFFF} if len(b) >= 6 else set()),
                  st.one_of(st.binary(max_size=40), st.just(b''))),
        # unknown type code with and without the ignore flag
        st.builds(lambda s, code, ign, tail: ([['rawbody', struct.pack('>IH', s, (code << 10) | (0x200 if ign else 0)) + tail]], {s}),
                  sid, st.sampled_from([0, 0x0F, 0x2A, 0x3F]), st.booleans(), small),
        # truncated frames
        st.builds(lambda s, cut: ([['rawbody', refcodec.encode({'type': 'REQUEST_STREAM', 'sid': s, 'n': 5, 'data': b'abcdef',
                                                                 'metadata': b'md'})[:cut]]], {s}), sid, st.integers(0, 15)),
        # well-formed frames whose reserved (most significant) bit of a numeric field is set: stream id, 63-bit position,
        # 31-bit request-n / ttl / count
        st.builds(lambda s, which, resp: ([['rawbody', _reserved_bit(s, which, resp)]], {s if which not in ('ka_pos', 'lease_ttl', 'lease_n') else 0}),
                  sid, st.sampled_from(['ka_pos', 'ka_pos', 'sid_rr', 'n_request_n', 'n_stream', 'lease_ttl', 'lease_n']), st.booleans()),
        # metadata length pointing past the end
        st.builds(lambda s: ([['rawbody', struct.pack('>IH', s, (0x0A << 10) | 0x120) + b'\xff\xff\xff' + b'xy']], {s}), sid),
    ]
    return st.one_of(*opts)


@st.composite
def hostile_programs(draw):
    real = draw(st.sampled_from(['s', 's', 'c']))
    raw = OTHER[real]
    frag = draw(st.sampled_from([None, None, 64, 128]))
    cfg = {'msg': draw(st.booleans()), 'frag': [frag, frag], 'rbuf': draw(gen.rbufs()), 'raw': raw}
    inter = []
    ops = [['tick', 3]]
    offending = set()
    # healthy interactions opened by the raw peer (real endpoint is responder) or by the real endpoint
    nh = draw(st.integers(0, 2))
    healthy_plan = []
    for i in range(nh):
        by_raw = draw(st.booleans())
        k = draw(st.sampled_from(['rr', 'st']))
        spec = {'k': k, 'side': raw if by_raw else real, 'req': draw(gen.lens(frag, 2))}
        if k == 'rr':
            spec['resp'] = {'mode': draw(st.sampled_from(['now', 'manual'])), 'p': draw(gen.nonempty_lens(frag, 2))}
        else:
            spec['src'] = {'kind': 'manual', 'els': draw(st.lists(gen.nonempty_lens(frag, 2), min_size=1, max_size=3)), 'end': 'sep'}
            spec['sub'] = {'n0': gen.MAXN, 'refill': 0}
        inter.append(spec)
        healthy_plan.append((i, by_raw, k))
        ops.append(['start'])
        ops.append(['tick', 2])
    hostile = draw(st.lists(hostile_frames(raw), min_size=1, max_size=8))
    live_reuse = nh > 0 and draw(st.integers(0, 3)) == 0
    raw_live = [i for (i, by_raw, k) in healthy_plan if by_raw and (k == 'st' or inter[i]['resp']['mode'] == 'manual')]
    if live_reuse and raw_live:
        i = draw(st.sampled_from(raw_live))
        ops.append(['rawreuse', i, draw(st.sampled_from(['rr', 'fnf', 'st', 'ch']))])
        ops.append(['tick', 2])
    for hops, sids in hostile:
        ops.extend([list(o) for o in hops])
        offending |= sids
        if draw(st.booleans()):
            ops.append(['tick', draw(st.integers(1, 3))])
    ops.append(['tick', 3])
    # let the healthy interactions finish
    for (i, by_raw, k) in healthy_plan:
        if by_raw:
            if k == 'rr':
                ops.append(['resolve', i])
            else:
                ops.extend([['emit', i, 'resp', 3], ['end', i, 'resp']])
        else:
            if k == 'rr':
                ops.append(['rawf', i, 'next_complete', inter[i]['resp']['p']])
            else:
                for lens in inter[i]['src']['els']:
                    ops.append(['rawf', i, 'next', lens])
                ops.append(['rawf', i, 'complete'])
        ops.append(['tick', 2])
    # probes: one answered by the real endpoint, one issued by it
    probe_in = {'k': 'rr', 'side': raw, 'req': [6, 2], 'resp': {'mode': 'now', 'p': [9, 3]}}
    probe_out = {'k': 'rr', 'side': real, 'req': [4, 0], 'resp': {'mode': 'now', 'p': [7, 1]}}
    inter.append(probe_in)
    ops.extend([['start'], ['tick', 4]])
    inter.append(probe_out)
    ops.extend([['start'], ['tick', 3], ['rawf', len(inter) - 1, 'next_complete', [7, 1]], ['tick', 4]])
    return {'cfg': cfg, 'inter': inter, 'ops': ops, 'heal': False, 'offending': sorted(offending), 'real': real,
            'nprobe': 2}


def judge_hostile(program, framed=True):
    tr, wd = run_guarded(program)
    if wd is not None:
        return [wd], None
    out = []
    real = program['real']
    raw = tr.scn.raw
    fin = tr.final[real]
    closed = any(e['ev'] in ('recv_eof', 'transport_close') for e in tr.world.log)
    if not closed and (fin['sender_done'] or fin['receiver_done']):
        out.append(viol('endpoint_task_died', 'C12:task_died:%s' % ('sender' if fin['sender_done'] else 'receiver'), side=real))
    for err in tr.loop_errors:
        out.append(viol('exception_reached_loop_handler', 'C12:loop_error:%s' % err.get('type'), **err))
    if not framed:
        return out, tr
    offending = set(program.get('offending', [])) | {0}
    healthy_sids = {tr.scn.st[u]['sid'] for u in tr.scn.started}
    for f in raw.frames:
        t, sid = f['type'], f['sid']
        if t in ('KEEPALIVE', 'SETUP'):
            continue
        if sid in healthy_sids and sid != 0:
            continue
        if t == 'ERROR' and sid in offending:
            continue
        out.append(viol('unexpected_emission', 'C12:unexpected_emission:%s' % t, type=t, sid=sid,
                        offending=sorted(offending)[:10]))
    # healthy interactions and probes
    reused = set(program.get('reused_uids', []))
    vs = monitors.mon_delivery(tr, PID, require_complete=True, skip_uids=reused)
    out.extend(vs)
    n = len(tr.scn.started)
    nprobe = program.get('nprobe', 0)
    for uid in tr.scn.started[n - nprobe:] if nprobe else []:
        stt = tr.scn.st[uid]
        spec = stt['spec']
        sid = stt['sid']
        if spec['side'] == raw.side:
            # answered by the real endpoint: the raw peer must have received exactly the scripted response
            d, m = __import__('harness.app', fromlist=['x']).payload_bytes(uid, 1, 0, spec['resp']['p'])
            got = [f for f in raw.frames if f['sid'] == sid and f['type'] in ('PAYLOAD', 'ERROR')]
            body = b''.join(f.get('data') or b'' for f in got if f['type'] == 'PAYLOAD')
            meta = b''.join(f.get('metadata') or b'' for f in got if f['type'] == 'PAYLOAD')
            if not got or any(f['type'] == 'ERROR' for f in got) or (body, meta) != (d, m):
                out.append(viol('probe_not_answered', 'C12:probe_not_answered:incoming', sid=sid,
                                got=[(f['type'], len(f.get('data') or b'')) for f in got][:5]))
        else:
            res = [e for e in tr.world.log if e.get('uid') == uid and e['ev'] in ('rr_result', 'rr_error', 'rr_cancelled')]
            if not res or res[0]['ev'] != 'rr_result':
                out.append(viol('probe_not_answered', 'C12:probe_not_answered:outgoing', sid=sid,
                                got=[r['ev'] for r in res]))
    return out, tr


# ------------------------------------------------------------------------------------------- (i) raw bytes

@st.composite
def byte_programs(draw):
    real = draw(st.sampled_from(['s', 's', 'c']))
    raw = OTHER[real]
    msg = draw(st.booleans())
    cfg = {'msg': msg, 'frag': [None, None], 'rbuf': draw(gen.rbufs()), 'raw': raw}
    blob = st.one_of(st.binary(max_size=60), st.just(b''), st.just(b'\x00\x00\x00'), st.just(b'\xff\xff\xff'),
                     st.binary(min_size=3, max_size=3).map(lambda b: b + b'\x00' * 6),
                     st.builds(lambda n: struct.pack('>I', n)[1:] + b'\x00' * 3, st.integers(0, 40)))
    chunks = draw(st.lists(blob, min_size=1, max_size=10))
    ops = [['tick', 3]]
    for c in chunks:
        ops.append(['rawbody', c] if msg else ['rawbytes', c])
        if draw(st.booleans()):
            ops.append(['tick', draw(st.integers(1, 2))])
    ops.append(['tick', 4])
    prog = {'cfg': cfg, 'inter': [], 'ops': ops, 'heal': False, 'real': real, 'offending': []}
    if msg:
        # messages are delimited by the transport: a probe must still be answered
        prog['inter'] = [{'k': 'rr', 'side': raw, 'req': [6, 2], 'resp': {'mode': 'now', 'p': [9, 3]}}]
        prog['ops'] += [['start'], ['tick', 4]]
        prog['nprobe'] = 1
        prog['any_error_sid'] = True
    return prog


def judge_bytes(program):
    if program['cfg']['msg']:
        # every message may be "offending": any ERROR is acceptable, everything else must be probe traffic
        tr, wd = run_guarded(program)
        if wd is not None:
            return [wd], None
        p2 = dict(program)
        p2['offending'] = sorted({f['sid'] for f in tr.scn.raw.frames if f['type'] == 'ERROR'})
        return judge_hostile(p2, framed=True)
    return judge_hostile(program, framed=False)


# ------------------------------------------------------------------------------------------- (iii) application faults

FAULTS = [
    ('rr', 'handler_raises'), ('rr', 'future_fails'), ('rr', 'future_fails_late'), ('rr', 'future_cancelled'),
    ('rr', 'future_cancelled_late'),
    ('st', 'handler_raises'), ('st', 'pub_raises_subscribe'), ('st', 'pub_raises_request'),
    ('st', 'gen_raises_factory'), ('st', 'agen_raises_factory'), ('ch', 'gen_raises_factory'),
    ('ch', 'requester_gen_raises_factory'),
    ('st', 'gen_raises_0'), ('st', 'gen_raises_1'), ('st', 'gen_raises_end'), ('st', 'agen_raises_1'), ('st', 'rx4_raises_1'),
    ('st', 'rx3bp_raises_1'), ('st', 'subscriber_raises_1'), ('st', 'subscriber_raises_2'),
    ('ch', 'handler_raises'), ('ch', 'pub_raises_subscribe'), ('ch', 'pub_raises_request'), ('ch', 'gen_raises_1'),
    ('ch', 'requester_pub_raises_subscribe'), ('ch', 'requester_gen_raises_1'), ('ch', 'responder_subscriber_raises_1'),
    ('ch', 'subscriber_raises_1'),
    ('fnf', 'handler_raises'), ('mp', 'handler_raises'), ('setup', 'on_setup_raises'),
]


def fault_program(k, fault, side, msg, frag, exc_style='str'):
    cfg = {'msg': msg, 'frag': [frag, frag], 'rbuf': [64, 64], 'exc_style': exc_style}
    els = [[20, 0], [0, 15], [30, 5]]
    spec = {'k': k if k != 'setup' else 'rr', 'side': side, 'req': [8, 3]}
    if k in ('rr', 'setup'):
        spec['resp'] = {'mode': 'now', 'p': [12, 0]}
    if k in ('st', 'ch'):
        spec['src'] = {'kind': 'manual', 'els': els, 'end': 'sep'}
        spec['sub'] = {'n0': gen.MAXN, 'refill': 0}
    if k == 'ch':
        spec['rsrc'] = {'kind': 'manual', 'els': els, 'end': 'sep'}
        spec['rsub'] = {'n0': gen.MAXN, 'refill': 0}
    if k == 'mp':
        spec['req'] = [0, 9]
    f = fault
    if f == 'handler_raises':
        if k == 'rr':
            spec['resp']['mode'] = 'raise'
        elif k == 'mp':
            cfg['mp_raises'] = True
        else:
            spec['handler_raises'] = True
    elif f == 'future_fails':
        spec['resp']['mode'] = 'fail'
    elif f == 'future_fails_late':
        spec['resp'].update(mode='fail_late', delay=3)
    elif f == 'future_cancelled':
        spec['resp']['mode'] = 'cancelled'
    elif f == 'future_cancelled_late':
        spec['resp'].update(mode='cancel_late', delay=3)
    elif f.startswith('pub_raises_'):
        spec['src']['raise_in'] = f.split('_')[-1]
    elif f.startswith('requester_pub_raises_'):
        spec['rsrc']['raise_in'] = f.split('_')[-1]
    elif f.startswith(('gen_raises', 'agen_raises', 'rx4_raises', 'rx3bp_raises')):
        kind, _, at = f.split('_')
        spec['src'] = {'kind': kind, 'els': els, 'end': 'sep', 'err_at': len(els) if at == 'end' else (at if at == 'factory' else int(at))}
    elif f.startswith('requester_gen_raises'):
        at = f.split('_')[-1]
        spec['rsrc'] = {'kind': 'gen', 'els': els, 'end': 'sep', 'err_at': at if at == 'factory' else int(at)}
    elif f.startswith('subscriber_raises'):
        spec['sub']['raise_at'] = int(f.split('_')[-1])
    elif f.startswith('responder_subscriber_raises'):
        spec['rsub']['raise_at'] = int(f.split('_')[-1])
    elif f == 'on_setup_raises':
        cfg['setup_raises'] = True
    bystander = {'k': 'st', 'side': side, 'req': [5, 0], 'src': {'kind': 'manual', 'els': [[70, 0], [3, 3], [100, 20]], 'end': 'sep'},
                 'sub': {'n0': gen.MAXN, 'refill': 0}}
    probe = {'k': 'rr', 'side': side, 'req': [6, 2], 'resp': {'mode': 'now', 'p': [9, 3]}}
    probe2 = {'k': 'rr', 'side': OTHER[side], 'req': [2, 2], 'resp': {'mode': 'now', 'p': [3, 9]}}
    ops = [['start'], ['tick', 2], ['emit', 0, 'resp', 1], ['start'], ['tick', 3], ['emit', 1, 'resp', 2], ['emit', 1, 'req', 2],
           ['tick', 3], ['emit', 1, 'resp', 3], ['emit', 1, 'req', 3], ['tick', 2], ['end', 1, 'resp'], ['end', 1, 'req'],
           ['emit', 0, 'resp', 3], ['end', 0, 'resp'], ['tick', 4], ['start'], ['start'], ['tick', 6]]
    return {'cfg': cfg, 'inter': [bystander, spec, probe, probe2], 'ops': ops, 'heal': True, 'fault': [k, fault, side]}


def judge_fault(program):
    tr, wd = run_guarded(program)
    if wd is not None:
        return [wd], None
    out = []
    k, fault, side = program['fault']
    for s in ('c', 's'):
        fin = tr.final[s]
        if fin['sender_done'] or fin['receiver_done']:
            out.append(viol('endpoint_task_died', 'C12:task_died:%s' % ('sender' if fin['sender_done'] else 'receiver'), side=s,
                            fault=fault))
    for err in tr.loop_errors:
        out.append(viol('exception_reached_loop_handler', 'C12:loop_error:%s' % err.get('type'), fault=fault, **err))
    # the bystander (uid 0) must be delivered in full, the probes (uid 2, 3) answered
    out.extend(monitors.mon_delivery(tr, PID, skip_uids={1}))
    if k != 'setup':
        for uid in (2, 3):
            res = [e['ev'] for e in tr.world.log if e.get('uid') == uid and e['ev'] in ('rr_result', 'rr_error', 'rr_cancelled')]
            if res[:1] != ['rr_result']:
                out.append(viol('probe_not_answered', 'C12:probe_not_answered:appfault', fault=fault, model=k, got=res))
    # the failing interaction: a two-way requester must not be left hanging when the responder side failed
    evs = [e for e in tr.world.log if e.get('uid') == 1]
    if fault in ('handler_raises', 'future_fails', 'future_fails_late') and k == 'rr':
        if not any(e['ev'] == 'rr_error' for e in evs):
            out.append(viol('failure_not_reported_to_requester', 'C12:failure_not_reported:rr', fault=fault))
    if k in ('st', 'ch') and (fault in ('handler_raises',) or fault.startswith(('pub_raises', 'gen_raises', 'agen_raises',
                                                                                 'rx4_raises', 'rx3bp_raises'))):
        if not any(e['ev'] == 'on_error' and e['dir'] == 'resp' and e['side'] == side for e in evs):
            out.append(viol('failure_not_reported_to_requester', 'C12:failure_not_reported:%s:%s' % (k, fault), fault=fault))
    if k == 'setup':
        errs = [e for e in tr.world.wire.get('s', []) if e['f']['type'] == 'ERROR' and e['f']['sid'] == 0]
        if not errs:
            out.append(viol('setup_error_not_reported', 'C12:setup_error_missing', fault=fault))
    # emissions caused by the fault are ERROR frames on that stream only: checked through C08's role monitor minus
    # the allowance the statement makes here
    for v in monitors.mon_protocol(tr, PID):
        if v['kind'] in ('frame_type_not_allowed_for_role',) and v['facts']['type'] == 'ERROR':
            continue  # "answered with an ERROR frame on the offending stream" is what C12 allows
        if v['kind'] in ('frame_after_own_error', 'frame_after_own_cancel'):
            continue  # D12 family, judged by C08
        out.append(v)
    return out, tr


def fuzz_oracle(data):
    """bytes -> messages for a real server in message mode (each message <= 64 bytes), then a probe."""
    if len(data) < 2:
        return []
    msgs = []
    pos = 0
    while pos < len(data) and len(msgs) < 12:
        ln = data[pos] % 48
        pos += 1
        msgs.append(bytes(data[pos:pos + ln]))
        pos += ln
    ops = [['tick', 2]]
    for m in msgs:
        ops.append(['rawbody', m])
    ops += [['tick', 3], ['start'], ['tick', 4]]
    prog = {'cfg': {'msg': True, 'frag': [None, None], 'rbuf': [64, 64], 'raw': 'c'}, 'inter':
            [{'k': 'rr', 'side': 'c', 'req': [6, 2], 'resp': {'mode': 'now', 'p': [9, 3]}}], 'ops': ops, 'heal': False,
            'real': 's', 'offending': [], 'nprobe': 1}
    vs, _ = judge_bytes(prog)
    # streams opened by the fuzzer's own request frames may legitimately be answered (handler error) - only
    # liveness, loop errors and the probe are judged here
    return [v for v in vs if v['kind'] not in ('unexpected_emission',)]


info = {}


# ---------------------------------------------------------- (ii') the same hostile frames through the real websocket glue

@st.composite
def glue_cases(draw):
    from harness import glue_e2e as G
    real = draw(st.sampled_from(['s', 's', 'c']))
    kind = draw(st.sampled_from(G.SERVER_GLUES if real == 's' else G.CLIENT_GLUES))
    hostile = draw(st.lists(hostile_frames('c' if real == 's' else 's'), min_size=1, max_size=8))
    bodies = []
    for hops, _sids in hostile:
        for o in hops:
            if o[0] == 'rawframe':
                bodies.append(refcodec.encode(o[1]))
            elif o[0] == 'rawbody':
                bodies.append(bytes(o[1]))
    return {'glue_hostile': True, 'real': real, 'kind': kind, 'bodies': bodies, 'spaced': draw(st.booleans())}


async def _glue_hostile(loop, case):
    """A real endpoint on a real websocket transport (stand-in websocket); the harness plays the peer by hand: handshake,
    the hostile messages, then a probe request-response in the direction the real endpoint answers, and one it issues."""
    import asyncio
    from harness import glue_e2e as G
    from rsocket.helpers import create_future, single_transport_provider
    from rsocket.payload import Payload
    from rsocket.request_handler import BaseRequestHandler
    from rsocket.rsocket_client import RSocketClient
    from rsocket.rsocket_server import RSocketServer

    class Handler(BaseRequestHandler):
        async def request_response(self, payload):
            return create_future(Payload(b'pong:' + bytes(payload.data or b''), None))

    tasks = []
    real = case['real']
    mine, theirs = G.pair('raw', case['kind']) if real == 's' else G.pair(case['kind'], 'raw')
    if real == 'c':
        mine, theirs = theirs, mine  # `mine` is always the harness end, `theirs` the real endpoint's
    got = []

    def drain():
        while not mine.inbox.empty():
            item = mine.inbox.get_nowait()
            if isinstance(item, (bytes, bytearray)):
                got.append(refcodec.decode(bytes(item)))

    async def say(body):
        theirs.inbox.put_nowait(theirs.wrap(bytes(body)))
        for _ in range(3 if case['spaced'] else 0):
            await asyncio.sleep(0)

    if real == 's':
        sock = RSocketServer(G.server_transport(case['kind'], theirs, tasks), handler_factory=Handler)
        await say(refcodec.encode({'type': 'SETUP', 'sid': 0, 'keepalive': 100000, 'lifetime': 1000000, 'metadata_mime': b'a/b',
                                   'data_mime': b'c/d', 'metadata': None, 'data': b''}))
        parity = 1
    else:
        sock = RSocketClient(single_transport_provider(G.client_transport(case['kind'], theirs, tasks)), handler_factory=Handler)
        await sock.connect()
        parity = 0
    for _ in range(6):
        await asyncio.sleep(0)
    for b in case['bodies']:
        await say(b)
    for _ in range(10):
        await asyncio.sleep(0)
    drain()
    before = len(got)
    probe_sid = 4001 if parity else 4002
    await say(refcodec.encode({'type': 'REQUEST_RESPONSE', 'sid': probe_sid, 'data': b'probe', 'metadata': None}))
    for _ in range(12):
        await asyncio.sleep(0)
    drain()
    answers = [f for f in got[before:] if f.get('sid') == probe_sid]
    # and a request the real endpoint issues itself, answered by hand
    fut = sock.request_response(Payload(b'out', None))
    for _ in range(8):
        await asyncio.sleep(0)
    drain()
    reqs = [f for f in got if f['type'] == 'REQUEST_RESPONSE' and bytes(f.get('data') or b'') == b'out']
    outcome = None
    if reqs:
        await say(refcodec.encode({'type': 'PAYLOAD', 'sid': reqs[-1]['sid'], 'next': True, 'complete': True, 'data': b'answer',
                                   'metadata': None}))
        try:
            r = await asyncio.wait_for(fut, 5.0)
            outcome = bytes(r.data or b'')
        except Exception as e:
            outcome = 'raised:%s' % type(e).__name__
    res = {'answers': [[f['type'], bytes(f.get('data') or b'')] for f in answers], 'issued': len(reqs), 'outcome': outcome,
           'receiver_done': sock._receiver_task.done() if getattr(sock, '_receiver_task', None) is not None else None,
           'sender_done': sock._sender_task.done() if getattr(sock, '_sender_task', None) is not None else None,
           'loop_errors': [dict(e) for e in getattr(loop, 'errors', [])]}
    try:
        await asyncio.wait_for(sock.close(), 5.0)
    except Exception:
        pass
    for t in tasks:
        t.cancel()
    return res


def glue_prop(case):
    from harness import vloop
    from harness.programs import _case_alarm
    out = []
    facts = dict(real=case['real'], transport=case['kind'], messages=len(case['bodies']))
    old = signal.signal(signal.SIGALRM, _case_alarm)
    signal.alarm(20 if not _stuck else 3)
    try:
        res = vloop.run_case(_glue_hostile, case)
    except common.CaseTimeout:
        _stuck.append(1)
        return [viol('processing_does_not_terminate', 'C12:glue:stuck:' + case['kind'], **facts)]
    except Exception as e:
        is_repo, sig = common.repo_exception_sig(e)
        if not is_repo:
            raise
        return [viol('exception_escaped', 'C12:glue:raised:%s:%s' % (case['kind'], type(e).__name__), exc=repr(e)[:200], **facts)]
    finally:
        signal.alarm(0)
        signal.signal(signal.SIGALRM, old)
    if res['receiver_done'] or res['sender_done']:
        out.append(viol('endpoint_task_died', 'C12:glue:task_died:%s' % ('receiver' if res['receiver_done'] else 'sender'), **facts))
    if res['answers'] != [['PAYLOAD', b'pong:probe']]:
        out.append(viol('probe_not_answered', 'C12:glue:probe_not_answered:incoming', got=res['answers'][:3], **facts))
    if res['issued'] != 1 or res['outcome'] != b'answer':
        out.append(viol('probe_not_answered', 'C12:glue:probe_not_answered:outgoing', issued=res['issued'],
                        outcome=res['outcome'] if not isinstance(res['outcome'], bytes) else res['outcome'].hex(), **facts))
    for err in res['loop_errors']:
        out.append(viol('exception_reached_loop_handler', 'C12:glue:loop_error:%s' % err.get('type'), **facts))
    info['nt'] = True
    info['classes'] = ['part=glue', 'real=' + case['real'], 'transport=' + case['kind']]
    return out


# ------------------------------------------------- (ii'') LEASE frames a peer can send to an endpoint that is waiting for one

@st.composite
def lease_cases(draw):
    """A lease-honouring client with 1-4 requests waiting for a lease; the peer sends LEASE frames of every kind - granting
    fewer requests than are waiting, none at all, a zero time-to-live, huge values - and finally one that covers everything."""
    leases = draw(st.lists(st.tuples(st.sampled_from([0, 0, 1, 2, 0x7FFFFFFF]), st.sampled_from([0, 1, 100000, 0x7FFFFFFF])),
                           min_size=1, max_size=4))
    return {'lease_hostile': True, 'parked': draw(st.lists(st.sampled_from(['rr', 'fnf', 'st']), min_size=1, max_size=4)),
            'leases': [list(l) for l in leases], 'msg': draw(st.booleans()), 'burst': draw(st.booleans())}


def lease_prop(case):
    inter = []
    for k in case['parked']:
        spec = {'k': k, 'side': 'c', 'req': [5, 1]}
        if k == 'rr':
            spec['resp'] = {'mode': 'manual', 'p': [3, 0]}
        if k == 'st':
            spec['src'] = {'kind': 'manual', 'els': [], 'end': 'sep'}
            spec['sub'] = {'n0': 3, 'refill': 0}
        inter.append(spec)
    ops = [['tick', 3], ['settle']] + [['start']] * len(inter) + [['tick', 2]]
    for n, ttl in case['leases']:
        ops.append(['rawframe', {'type': 'LEASE', 'sid': 0, 'ttl': ttl, 'count': n, 'metadata': None}])
        if not case['burst']:
            ops.append(['tick', 2])
    ops += [['tick', 3], ['rawframe', {'type': 'LEASE', 'sid': 0, 'ttl': 100000000, 'count': 1000, 'metadata': None}], ['tick', 4], ['settle']]
    prog = {'cfg': {'msg': case['msg'], 'frag': [None, None], 'rbuf': [1024, 1024], 'raw': 's', 'lease': {'queue': 0}},
            'inter': inter, 'ops': ops, 'heal': False}
    tr, wd = run_guarded(prog)
    info['nt'] = True
    info['classes'] = ['part=lease_frames', 'waiting=%d' % len(inter)]
    if wd is not None:
        return [wd]
    out = []
    fin = tr.final['c']
    if fin['sender_done'] or fin['receiver_done']:
        out.append(viol('endpoint_task_died', 'C12:task_died:%s' % ('sender' if fin['sender_done'] else 'receiver'), side='c'))
    for err in tr.loop_errors:
        out.append(viol('exception_reached_loop_handler', 'C12:loop_error:%s' % err.get('type'), **err))
    sent = [e for e in tr.world.wire.get('c', []) if e['f']['type'] in monitors.REQ_TYPES]
    if len(sent) != len(inter):
        out.append(viol('request_never_released', 'C12:lease_frames:requests_sent', sent=len(sent), waiting=len(inter),
                        leases=case['leases']))
    return out


def prop_hostile(program):
    vs, tr = judge_hostile(program)
    info['nt'] = True
    info['classes'] = ['part=frames', 'real=' + program['real'], 'framing=' + ('message' if program['cfg']['msg'] else 'bytes'),
                       'healthy=%d' % (len(program['inter']) - 2)]
    return vs


def prop_bytes(program):
    vs, tr = judge_bytes(program)
    info['nt'] = True
    info['classes'] = ['part=bytes', 'real=' + program['real'], 'framing=' + ('message' if program['cfg']['msg'] else 'bytes')]
    return vs


def classify(case, vs):
    return info.get('nt', False), info.get('classes', ()), None


def matrix_shard(tier, seed, part, parts):
    common.use_repo()
    stats = common.Stats()
    known = common.Known(PID)
    from harness import app as A
    # ... and how the application builds its exception: message, no argument, a non-string argument, a wrapped exception,
    # several arguments, bytes (the full cross product for the message style, the other styles rotate over framing / fragments)
    combos = []
    for (k, fault), side in itertools.product(FAULTS, ('c', 's')):
        for msg, frag in itertools.product((False, True), (None, 64)):
            combos.append(((k, fault), side, msg, frag, 'str'))
        for j, style in enumerate(A.EXC_STYLES[1:]):
            combos.append(((k, fault), side, bool(j % 2), (None, 64)[(j // 2) % 2], style))
    for i, ((k, fault), side, msg, frag, style) in enumerate(combos):
        if i % parts != part:
            continue
        prog = fault_program(k, fault, side, msg, frag, style)
        vs, tr = judge_fault(prog)
        stats.case(prog, True, ['part=appfaults', 'fault=%s:%s' % (k, fault), 'exception_built_with=' + style], sample_limit=1)
        for v in common.judge(stats, known, prog, vs):
            if not any(v['sig'] == vv['sig'] for vv, _ in stats.violations):
                stats.violations.append((v, prog))
    stats.extra['appfault_matrix'] = {'faults': len(FAULTS), 'combinations': len(combos), 'exhaustive': True}
    return stats


def hyp_shard(tier, seed, n, part):
    common.use_repo()
    stats = common.Stats()
    known = common.Known(PID)
    if part == 'lease':
        common.hyp_search(stats, known, lease_cases(), lease_prop, n, seed, classify=classify, shrink=True)
    elif part == 'glue':
        common.hyp_search(stats, known, glue_cases(), glue_prop, n, seed, classify=classify, shrink=True)
    elif part == 'frames':
        common.hyp_search(stats, known, hostile_programs(), prop_hostile, n, seed, classify=classify, shrink=True)
    else:
        common.hyp_search(stats, known, byte_programs(), prop_bytes, n, seed, classify=classify, shrink=True)
    return stats


def run(tier, seed):
    t0 = time.time()
    total = 3000 if tier == 'quick' else 100000
    seeds = common.shard_seeds(seed, 12)
    jobs = [('matrix_shard', dict(tier=tier, seed=seed, part=i, parts=4)) for i in range(4)]
    for i, s in enumerate(seeds):
        jobs.append(('hyp_shard', dict(tier=tier, seed=s, n=total // 12, part='frames' if i % 3 else 'bytes')))
    nglue = 480 if tier == 'quick' else 16000
    for s in common.shard_seeds(seed, 4):
        jobs.append(('hyp_shard', dict(tier=tier, seed=s + 91, n=nglue // 4, part='glue')))
    for s in common.shard_seeds(seed, 2):
        jobs.append(('hyp_shard', dict(tier=tier, seed=s + 97, n=(200 if tier == 'quick' else 6000) // 2, part='lease')))
    stats = common.run_shards_multi(__name__, jobs)
    if tier == 'thorough':
        from harness import fuzz
        fuzz.run_atheris(stats, PID, 'c12', seed, runs=200000, max_seconds=300)
    return common.finish(PID, tier, seed, LEVEL, RULE, stats, t0, ASSUMPTIONS)


def replay(path):
    common.use_repo()
    case = common.load_replay(path)
    if case.get('glue_hostile'):
        return common.report_replay(PID, path, glue_prop(case))
    if case.get('lease_hostile'):
        return common.report_replay(PID, path, lease_prop(case))
    if 'fuzz_input' in case:
        return common.report_replay(PID, path, fuzz_oracle(case['fuzz_input']))
    if 'fault' in case:
        return common.report_replay(PID, path, judge_fault(case)[0])
    if 'nprobe' in case and case.get('inter') and 'offending' in case and case['offending']:
        return common.report_replay(PID, path, judge_hostile(case)[0])
    return common.report_replay(PID, path, judge_bytes(case)[0] if not case.get('offending') else judge_hostile(case)[0])
