"""C18 Extension metadata codecs round-trip within format limits (Engine A, DESIGN 3/C18)."""
import time

from hypothesis import strategies as st

from harness import common, refcodec, variants
from harness.common import viol

PID = 'C18'
LEVEL = 'exploration'
RULE = ('(A routing item object that was encoded once is given other tags - by assignment and by parse() - and encoded again.) Lists of 0-6 composite metadata entries of every kind: routing tags (0-5 tags of 0-255 bytes, bytes or str), '
        'authentication simple (username lengths 0/1/255/256/65535 and random, password bytes) and bearer, per-stream '
        'MIME type and accepted MIME types (well-known ids and custom names of 1-128 bytes, boundary biased, given as '
        'enum or bytes), generic entries with well-known or custom MIME and content 0-2 KiB (a few 70 KiB); built '
        'directly and through rsocket.extensions.helpers. Oracle: differential against the reference composite '
        'encoder written from the extension specifications (serialize == reference bytes), parse(reference bytes) '
        'yields entries equal to the values (encoding normalised to the MIME name), serialize(parse(b)) == b; names of '
        '129-200 bytes and tags of 256-300 bytes must raise at encode time. Tables exhaustively: every id 0..127 of '
        'the MIME and authentication registries maps to one name and back, unknown ids raise, names unique, table == '
        'the specification list embedded in the harness. Both codec backends. Non-trivial = >= 2 entries of '
        'different kinds or an entry at a length boundary; distinct = distinct reference bytes.')
ASSUMPTIONS = ['specification tables and layouts embedded in harness/refcodec.py',
               'zero-length custom MIME names and usernames above 65535 bytes are outside the stated limits and not generated']

SPECIAL = {refcodec.MIME_ROUTING, refcodec.MIME_AUTH, refcodec.MIME_STREAM_MIME, refcodec.MIME_ACCEPT_MIMES}
SPECIAL_NAMES = {refcodec.WELL_KNOWN_MIME[i].encode() for i in SPECIAL}
KNOWN_IDS = sorted(refcodec.WELL_KNOWN_MIME)


def _near_table_names():
    out = []
    for name in list(refcodec.WELL_KNOWN_MIME.values()) + ['simple', 'bearer']:
        b = name.encode()
        for v in (b.upper(), b.title(), b.swapcase(), b + b' ', b' ' + b, b[:-1], b + b';q=1'):
            if v != b and 1 <= len(v) <= 128 and v.decode('latin-1') not in refcodec.WELL_KNOWN_MIME_BY_NAME:
                out.append(v)
    return sorted(set(out))


NEAR_TABLE = _near_table_names()


def _library_only_names():
    """Names the library's own MIME enum knows but the specification table does not (parser sentinels with negative ids,
    D15): as custom names they must travel as custom names."""
    out = [b'UNPARSEABLE_MIME_TYPE_DO_NOT_USE', b'UNKNOWN_YET_RESERVED_DO_NOT_USE']
    try:
        from rsocket.extensions.mimetypes import WellKnownMimeTypes
        for m in WellKnownMimeTypes:
            name = bytes(m.value.name)
            if name.decode('latin-1') not in refcodec.WELL_KNOWN_MIME_BY_NAME and 1 <= len(name) <= 128:
                out.append(name)
    except Exception:
        pass
    return sorted(set(out))


def custom_name(lo=1, hi=128):
    return st.one_of(
        st.sampled_from(_library_only_names()),
        # names that are NOT in the well-known table but differ from a table name only by case / whitespace / one byte
        st.sampled_from(NEAR_TABLE),
        st.sampled_from([1, 2, 127, 128]).flatmap(lambda n: st.binary(min_size=n, max_size=n)),
        st.binary(min_size=lo, max_size=hi),
        st.sampled_from([b'application/x-custom', b'x', b'a/b']),
    ).filter(lambda b: lo <= len(b) <= hi and b not in SPECIAL_NAMES)


def mime(allow_special=False):
    ids = KNOWN_IDS if allow_special else [i for i in KNOWN_IDS if i not in SPECIAL]
    return st.one_of(
        st.tuples(st.just('id'), st.sampled_from(ids), st.sampled_from(['enum', 'type', 'name'])),
        st.tuples(st.just('custom'), custom_name()),
    )


def content(big=True):
    opts = [st.just(b''), st.binary(max_size=40), st.binary(max_size=2048)]
    if big:
        opts.append(st.just(b'\xa5' * 70000))
    return st.one_of(*opts)


def tag():
    return st.one_of(st.sampled_from([b'', b'a', b'route.name', b'x' * 255, b'y' * 254]), st.binary(max_size=255),
                     st.text(max_size=40).filter(lambda s: len(s.encode()) <= 255))


def username():
    return st.one_of(st.sampled_from([0, 1, 255, 256, 65535]).map(lambda n: b'u' * n), st.binary(max_size=300))


def entry():
    return st.one_of(
        st.tuples(st.just('routing'), st.lists(tag(), max_size=5), st.booleans()),
        st.tuples(st.just('auth_simple'), username(), st.binary(max_size=100), st.booleans()),
        st.tuples(st.just('auth_bearer'), st.binary(max_size=300), st.booleans()),
        st.tuples(st.just('mime'), mime(True), st.booleans()),
        st.tuples(st.just('accept'), st.lists(mime(True), max_size=5), st.booleans()),
        st.tuples(st.just('generic'), mime(False), content(), st.booleans()),
    )


def cases():
    return st.fixed_dictionaries({'entries': st.lists(entry(), max_size=6)})


def overlong_cases():
    return st.one_of(
        st.fixed_dictionaries({'overlong': st.just('mime'), 'name': st.binary(min_size=129, max_size=200),
                               'where': st.sampled_from(['generic', 'mime', 'accept'])}),
        st.fixed_dictionaries({'overlong': st.just('tag'), 'tag': st.binary(min_size=256, max_size=300),
                               'before': st.lists(st.binary(max_size=10), max_size=2)}),
    )


def ref_mime(m):
    """reference header value: int id or custom bytes; and the expected parsed name"""
    if m[0] == 'id':
        return m[1], refcodec.WELL_KNOWN_MIME[m[1]].encode()
    name = m[1]
    if name.decode('latin-1') in refcodec.WELL_KNOWN_MIME_BY_NAME:
        return refcodec.WELL_KNOWN_MIME_BY_NAME[name.decode('latin-1')], name
    return name, name


def lib_mime(var, m):
    MT = var.mod('rsocket.extensions.mimetypes')
    if m[0] == 'custom':
        return m[1]
    member = next(x for x in MT.WellKnownMimeTypes if x.value.id == m[1])
    if m[2] == 'enum':
        return member
    if m[2] == 'type':
        return member.value
    return member.value.name


def tb(t):
    return t.encode() if isinstance(t, str) else t


def build(var, e):
    """(repo item, (reference mime, reference content), expected parsed description)"""
    H = var.mod('rsocket.extensions.helpers')
    k = e[0]
    if k == 'routing':
        tags = e[1]
        if e[2]:
            item = H.route(*tags)
        else:
            item = var.mod('rsocket.extensions.routing').RoutingMetadata(list(tags))
        return item, (refcodec.MIME_ROUTING, refcodec.enc_tags([tb(t) for t in tags])), ('routing', [tb(t) for t in tags])
    if k == 'auth_simple':
        AU = var.mod('rsocket.extensions.authentication')
        AC = var.mod('rsocket.extensions.authentication_content')
        item = H.authenticate_simple(e[1], e[2]) if e[3] else AC.AuthenticationContent(AU.AuthenticationSimple(e[1], e[2]))
        return item, (refcodec.MIME_AUTH, refcodec.enc_auth_simple(e[1], e[2])), ('auth_simple', e[1], e[2])
    if k == 'auth_bearer':
        AU = var.mod('rsocket.extensions.authentication')
        AC = var.mod('rsocket.extensions.authentication_content')
        item = H.authenticate_bearer(e[1]) if e[2] else AC.AuthenticationContent(AU.AuthenticationBearer(e[1]))
        return item, (refcodec.MIME_AUTH, refcodec.enc_auth_bearer(e[1])), ('auth_bearer', e[1])
    if k == 'mime':
        SD = var.mod('rsocket.extensions.stream_data_mimetype')
        lm = lib_mime(var, e[1])
        item = H.data_mime_type(lm) if e[2] else SD.StreamDataMimetype(lm)
        rm, name = ref_mime(e[1])
        return item, (refcodec.MIME_STREAM_MIME, refcodec.enc_mime_list([rm])), ('mime', name)
    if k == 'accept':
        SD = var.mod('rsocket.extensions.stream_data_mimetype')
        lms = [lib_mime(var, m) for m in e[1]]
        item = H.data_mime_types(*lms) if e[2] else SD.StreamDataMimetypes(lms)
        rms = [ref_mime(m) for m in e[1]]
        return item, (refcodec.MIME_ACCEPT_MIMES, refcodec.enc_mime_list([r for r, _ in rms])), ('accept', [n for _, n in rms])
    if k == 'generic':
        CI = var.mod('rsocket.extensions.composite_metadata_item')
        lm = lib_mime(var, e[1])
        item = H.metadata_item(e[2], lm) if e[3] else CI.CompositeMetadataItem(lm, e[2])
        rm, name = ref_mime(e[1])
        return item, (rm, e[2]), ('generic', name, e[2])
    raise ValueError(k)


def describe(var, item):
    """What a parsed item says, in the same shape as the expected description."""
    MT = var.mod('rsocket.extensions.mimetypes')
    cls = type(item).__name__

    def name_of(enc):
        return bytes(MT.ensure_encoding_name(enc)) if not hasattr(enc, 'name') or isinstance(enc, MT.WellKnownMimeTypes) \
            else bytes(enc.name)

    if cls == 'RoutingMetadata':
        return ('routing', [bytes(t) for t in item.tags])
    if cls == 'AuthenticationContent':
        a = item.authentication
        if type(a).__name__ == 'AuthenticationSimple':
            return ('auth_simple', bytes(a.username), bytes(a.password))
        return ('auth_bearer', bytes(a.token))
    if cls == 'StreamDataMimetype':
        return ('mime', name_of(item.data_encoding))
    if cls == 'StreamDataMimetypes':
        return ('accept', [name_of(x) for x in item.data_encodings])
    return ('generic', name_of(item.encoding), bytes(item.content))


def check_case(case):
    out = []
    if 'overlong' in case:
        return check_overlong(case)
    for var in variants.all_variants():
        CM = var.mod('rsocket.extensions.composite_metadata')
        H = var.mod('rsocket.extensions.helpers')
        try:
            built = [build(var, tuple(e)) for e in case['entries']]
            ref = refcodec.enc_composite([r for _, r, _ in built])
            got = H.composite(*[it for it, _, _ in built])
        except Exception as e:
            is_repo, sig = common.repo_exception_sig(e)
            if not is_repo:
                raise
            out.append(viol('encode_raised', 'C18:encode_raised:%s' % type(e).__name__, backend=var.name, exc=repr(e),
                            kinds=[e_[0] for e_ in case['entries']]))
            continue
        if bytes(got) != ref:
            i = next((i for i, (a, b) in enumerate(zip(bytes(got), ref)) if a != b), min(len(got), len(ref)))
            out.append(viol('encode_differs_from_reference', 'C18:encode_differs:%s' % '+'.join(sorted(set(e[0] for e in case['entries']))),
                            backend=var.name, at=i, got=bytes(got)[max(0, i - 8):i + 24].hex(), want=ref[max(0, i - 8):i + 24].hex(),
                            got_len=len(got), want_len=len(ref)))
        # an item object that has been encoded once, is given other tags (assignment, or parse() of other bytes into the same
        # object, as a forwarding proxy or a client that keeps one routing item does) and is encoded again
        for (it, _r, d) in built:
            if d[0] != 'routing' or not hasattr(it, 'tags'):
                continue
            new_tags = [bytes(t) for t in reversed(d[1])] + [b'again']
            want_again = refcodec.enc_composite([(refcodec.MIME_ROUTING, refcodec.enc_tags(new_tags))])
            try:
                it.tags = list(new_tags)
                got_a = bytes(H.composite(it))
                it.parse(refcodec.enc_tags(new_tags[:-1] + [b'parsed']))
                got_b = bytes(H.composite(it))
                want_b = refcodec.enc_composite([(refcodec.MIME_ROUTING, refcodec.enc_tags(new_tags[:-1] + [b'parsed']))])
            except Exception as e:
                is_repo, sig = common.repo_exception_sig(e)
                if not is_repo:
                    raise
                out.append(viol('encode_raised', 'C18:encode_raised:reused_item:%s' % type(e).__name__, backend=var.name, exc=repr(e)))
                break
            if got_a != want_again or got_b != want_b:
                out.append(viol('encode_differs_from_reference', 'C18:encode_differs:reused_item:%s' % ('assigned' if got_a != want_again else 'parsed'),
                                backend=var.name, got=(got_a if got_a != want_again else got_b)[:40].hex(),
                                want=(want_again if got_a != want_again else want_b)[:40].hex()))
            break
        try:
            parsed = CM.CompositeMetadata().parse(ref)
            descr = [describe(var, it) for it in parsed.items]
        except Exception as e:
            is_repo, sig = common.repo_exception_sig(e)
            if not is_repo:
                raise
            out.append(viol('decode_raised', 'C18:decode_raised:%s' % type(e).__name__, backend=var.name, exc=repr(e)))
            continue
        want = [d for _, _, d in built]
        if descr != want:
            idx = next((i for i, (a, b) in enumerate(zip(descr, want)) if a != b), min(len(descr), len(want)))
            kind = want[idx][0] if idx < len(want) else 'extra'
            out.append(viol('decode_differs', 'C18:decode_differs:%s' % kind, backend=var.name, index=idx,
                            got=repr(descr[idx])[:200] if idx < len(descr) else None, want=repr(want[idx])[:200] if idx < len(want) else None))
        try:
            again = parsed.serialize()
            if bytes(again) != ref:
                out.append(viol('reencode_differs', 'C18:reencode_differs', backend=var.name))
        except Exception as e:
            is_repo, sig = common.repo_exception_sig(e)
            if not is_repo:
                raise
            out.append(viol('reencode_raised', 'C18:reencode_raised:%s' % type(e).__name__, backend=var.name, exc=repr(e)))
    return out


def check_overlong(case):
    out = []
    for var in variants.all_variants():
        H = var.mod('rsocket.extensions.helpers')
        try:
            if case['overlong'] == 'mime':
                if case['where'] == 'generic':
                    b = H.composite(H.metadata_item(b'content', case['name']))
                elif case['where'] == 'mime':
                    b = H.composite(H.data_mime_type(case['name']))
                else:
                    b = H.composite(H.data_mime_types(b'a/b', case['name']))
            else:
                b = H.composite(H.route(*(list(case['before']) + [case['tag']])))
        except Exception:
            continue
        out.append(viol('overlong_value_encoded', 'C18:overlong_encoded:%s' % case['overlong'], backend=var.name,
                        produced=bytes(b)[:40].hex()))
    return out


def tables(stats, known):
    n = 0
    for var in variants.all_variants():
        MT = var.mod('rsocket.extensions.mimetypes')
        AT = var.mod('rsocket.extensions.authentication_types')
        EX = var.mod('rsocket.exceptions')
        for reg, spec, cls, exc, tag_ in ((MT.WellKnownMimeTypes, refcodec.WELL_KNOWN_MIME, 'mime', EX.RSocketUnknownMimetype, 'mime'),
                                          (AT.WellKnownAuthenticationTypes, refcodec.WELL_KNOWN_AUTH, 'auth', EX.RSocketUnknownAuthType, 'auth')):
            names_seen = {}
            for i in range(128):
                n += 1
                case = {'table': tag_, 'id': i}
                vs = []
                try:
                    name = reg.require_by_id(i)
                    name = bytes(getattr(name, 'name', name))
                except exc:
                    name = None
                except Exception as e:
                    vs.append(viol('table_lookup_raised', 'C18:table_raised:' + tag_, id=i, exc=repr(e)))
                    name = None
                want = spec.get(i)
                if (name.decode('latin-1') if name is not None else None) != want:
                    vs.append(viol('table_differs_from_specification', 'C18:table_differs:' + tag_, id=i,
                                   got=name, want=want, backend=var.name))
                if name is not None:
                    if name in names_seen:
                        vs.append(viol('table_name_not_unique', 'C18:table_not_unique:' + tag_, id=i, other=names_seen[name]))
                    names_seen[name] = i
                    back = reg.get_by_name(name)
                    back = getattr(back, 'id', back)
                    if back != i:
                        vs.append(viol('table_not_one_to_one', 'C18:table_not_bijective:' + tag_, id=i, back=back))
                for v in common.judge(stats, known, case, vs):
                    stats.violations.append((v, case))
            # members beyond 0..127 other than the two negative sentinels
            for member in reg:
                mid = member.value.id
                if mid >= 0 and spec.get(mid) != member.value.name.decode('latin-1'):
                    v = viol('table_member_not_in_specification', 'C18:table_extra:' + tag_, id=mid, name=member.value.name)
                    for nv in common.judge(stats, known, {'table': tag_, 'id': mid}, [v]):
                        stats.violations.append((nv, {'table': tag_, 'id': mid}))
    stats.evaluations += n
    stats.extra['table_entries_checked'] = n
    stats.case({'table': 'mime+auth registries', 'entries': n}, True, ['tables'], key='tables')
    stats.extra['tables_exhaustive'] = True


info = {}


def prop(case):
    out = check_case(case)
    if 'overlong' in case:
        info['nt'] = True
        info['classes'] = ['overlong=' + case['overlong']]
        info['key'] = None
        return out
    es = case['entries']
    kinds = set(e[0] for e in es)
    boundary = False
    for e in es:
        for x in e[1:]:
            items = x if isinstance(x, list) else [x]
            for y in items:
                if isinstance(y, (bytes, str)) and len(tb(y)) in (0, 1, 127, 128, 255, 256, 65535):
                    boundary = True
                if isinstance(y, tuple) and y[0] == 'custom' and len(y[1]) in (1, 127, 128):
                    boundary = True
    info['nt'] = len(kinds) >= 2 or boundary
    info['classes'] = ['entries=%d' % len(es), 'kinds=%d' % len(kinds), 'boundary=%s' % boundary]
    info['key'] = None
    return out


def classify(case, vs):
    return info['nt'], info['classes'], info['key']


def fuzz_oracle(data):
    """parse -> serialize -> parse stability on arbitrary bytes (whatever the decoder accepts must be a fixed point)."""
    out = []
    views = []
    for var in variants.all_variants():
        CM = var.mod('rsocket.extensions.composite_metadata')
        try:
            p1 = CM.CompositeMetadata().parse(data)
            b1 = bytes(p1.serialize())
        except Exception:
            views.append(None)
            continue
        try:
            p2 = CM.CompositeMetadata().parse(b1)
            b2 = bytes(p2.serialize())
            d1 = [describe(var, it) for it in p1.items]
            d2 = [describe(var, it) for it in p2.items]
        except Exception as e:
            out.append(viol('canonical_bytes_not_decodable', 'C18:fuzz:canonical_not_decodable', input=data[:64].hex(),
                            exc=repr(e)))
            continue
        if b1 != b2 or d1 != d2:
            out.append(viol('parse_serialize_not_stable', 'C18:fuzz:not_stable', input=data[:64].hex()))
        try:
            ref = refcodec.dec_composite(b1)
            if refcodec.enc_composite(ref) != b1:
                out.append(viol('canonical_bytes_not_canonical_for_reference', 'C18:fuzz:reference_differs', canonical=b1[:64].hex()))
        except refcodec.RefDecodeError as e:
            out.append(viol('canonical_bytes_rejected_by_reference', 'C18:fuzz:reference_rejects', canonical=b1[:64].hex(), err=str(e)))
        views.append((b1, d1))
    return out


def shard(tier, seed, n, mode):
    common.use_repo()
    stats = common.Stats()
    known = common.Known(PID)
    variants.load()
    stats.extra['backends'] = [v.name for v in variants.all_variants()]
    if mode == 'tables':
        tables(stats, known)
    elif mode == 'overlong':
        common.hyp_search(stats, known, overlong_cases(), prop, n, seed, classify=classify)
    else:
        common.hyp_search(stats, known, cases(), prop, n, seed, classify=classify)
    return stats


def run(tier, seed):
    t0 = time.time()
    total = 12000 if tier == 'quick' else 200000
    nsh = common.NPROC - 1
    jobs = [dict(tier=tier, seed=seed, n=0, mode='tables'), dict(tier=tier, seed=seed, n=300 if tier == 'quick' else 5000, mode='overlong')]
    jobs += [dict(tier=tier, seed=s, n=total // nsh, mode='values') for s in common.shard_seeds(seed, nsh)]
    stats = common.run_shards(__name__, 'shard', jobs)
    if tier == 'thorough':
        from harness import fuzz
        fuzz.run_atheris(stats, PID, 'c18', seed, runs=1000000, max_seconds=200)
    return common.finish(PID, tier, seed, LEVEL, RULE, stats, t0, ASSUMPTIONS)


def replay(path):
    common.use_repo()
    variants.load()
    case = common.load_replay(path)
    if 'fuzz_input' in case:
        return common.report_replay(PID, path, fuzz_oracle(case['fuzz_input']))
    if 'table' in case:
        stats = common.Stats()
        tables(stats, common.Known(PID))
        return common.report_replay(PID, path, [v for v, _ in stats.violations])
    if 'entries' in case:
        case['entries'] = [tuple(tuple(x) if isinstance(x, list) and x and x[0] in ('id', 'custom') else
                                 ([tuple(y) if isinstance(y, list) and y and y[0] in ('id', 'custom') else y for y in x]
                                  if isinstance(x, list) else x) for x in e) for e in case['entries']]
    return common.report_replay(PID, path, prop(case))
