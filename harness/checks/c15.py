"""C15 Keepalive: echo, periodic emission, timeout detection (Engine C, virtual clock)."""
import time

from hypothesis import strategies as st

from harness import common, gen
from harness.common import viol
from harness.programs import run_program

PID = 'C15'
LEVEL = 'exploration'
RULE = ('Echo: KEEPALIVE frames (respond flag 0/1, data 0-200 bytes, 63-bit position) sent by a raw peer to a real '
        'server and to a real client, interleaved with request traffic. Periodic / timeout: a real client with keep-alive '
        'period P and maximum lifetime L generated over 1 ms..60 s (including P > L and sub-second parts) against a raw '
        'server whose KEEPALIVE pattern (acknowledgements without the respond flag, or keepalives of its own with it) is a '
        'generated list of gaps: short gaps (<= 0.9 L) for which no timeout may '
        'be reported, optionally ended by silence (observed for >= 2.2 L) after which the timeout must have been '
        'reported. Oracle: every respond-flagged KEEPALIVE is answered by exactly one KEEPALIVE without the flag and with '
        'the same data, answers in request order, unflagged ones are never answered; the client\'s respond-flagged '
        'KEEPALIVEs are sent at successive virtual times differing by exactly P; on_keepalive_timeout is not invoked '
        'while KEEPALIVEs (counting connection start) keep arriving with gaps <= 0.9 L and has been invoked by 2.2 L after '
        'the last one when the server goes silent. Busy client: one 3-12 kB request fragmented at 64 bytes over a link on '
        'which every write takes 1-5 ms (the transfer spans several periods P in {20, 50, 100} ms), acknowledged '
        'keepalives: consecutive respond-flagged KEEPALIVEs are never further apart than P plus three write times and '
        'no timeout is reported. After a timeout: the handler reconnects from on_keepalive_timeout onto a transport whose '
        'connect() may suspend; on the new connection SETUP goes out, KEEPALIVEs run at period P, and a second silent '
        'server is detected again while an acknowledging one is not. Non-trivial = a pattern that stops, or a respond-flagged echo with '
        'data; distinct = case hash.')
ASSUMPTIONS = ['virtual clock: loop.time() and datetime.now() of rsocket.rsocket_client', 'gaps are generated off the exact '
               'boundaries L and 2L (the statement does not fix them); how often the timeout fires is not judged']


@st.composite
def echo_cases(draw):
    real = draw(st.sampled_from(['s', 'c']))
    n = draw(st.integers(1, 8))
    frames = []
    for _ in range(n):
        frames.append({'respond': draw(st.booleans()), 'data': draw(st.one_of(st.just(b''), st.binary(min_size=1, max_size=200),
                                              st.sampled_from([1, 63, 64, 65, 127, 128, 200]).flatmap(
                                                  lambda n: st.binary(min_size=n, max_size=n)))),
                       'position': draw(st.sampled_from([0, 1, 12345, (1 << 63) - 1])),
                       'gap_ticks': draw(st.integers(0, 3))})
    return {'echo': True, 'real': real, 'msg': draw(st.booleans()), 'frames': frames, 'traffic': draw(st.booleans()),
            'rbuf': draw(st.sampled_from([1, 7, 1024]))}


def judge_echo(case):
    real = case['real']
    raw = 'c' if real == 's' else 's'
    inter = []
    ops = [['tick', 3]]
    if case['traffic']:
        inter.append({'k': 'rr', 'side': raw, 'req': [5, 1], 'resp': {'mode': 'now', 'p': [6, 0]}})
        ops += [['start'], ['tick', 1]]
    for i, f in enumerate(case['frames']):
        ops.append(['rawframe', {'type': 'KEEPALIVE', 'sid': 0, 'respond': f['respond'], 'position': f['position'],
                                 'data': f['data']}])
        if f['gap_ticks']:
            ops.append(['tick', f['gap_ticks']])
    ops += [['tick', 4], ['settle']]
    prog = {'cfg': {'msg': case['msg'], 'frag': [None, None], 'rbuf': [case['rbuf'], case['rbuf']], 'raw': raw},
            'inter': inter, 'ops': ops, 'heal': False}
    tr = run_program(prog)
    out = []
    answers = [f for f in tr.scn.raw.frames if f['type'] == 'KEEPALIVE' and not f.get('respond')]
    want = [f['data'] for f in case['frames'] if f['respond']]
    got = [a.get('data') or b'' for a in answers]
    if got != want:
        kind = 'missing' if len(got) < len(want) else ('unsolicited_or_duplicate' if len(got) > len(want) else 'data_or_order')
        out.append(viol('keepalive_echo_wrong', 'C15:echo_%s' % kind, real=real, want=[len(x) for x in want],
                        got=[len(x) for x in got]))
    bad_sid = [a for a in answers if a['sid'] != 0]
    if bad_sid:
        out.append(viol('keepalive_answer_not_on_stream_0', 'C15:echo_stream', sid=bad_sid[0]['sid']))
    for err in tr.loop_errors:
        out.append(viol('unhandled_exception', 'C15:loop_error:%s' % err.get('type'), **err))
    nt = any(f['respond'] and f['data'] for f in case['frames'])
    return out, nt, ['part=echo', 'real=' + real, 'with_data=%s' % nt]


@st.composite
def timing_cases(draw):
    # periods in milliseconds, with sub-second / sub-millisecond parts
    L = draw(st.one_of(st.sampled_from([1, 3, 10, 250, 1500, 10000, 60000]), st.integers(1, 60000))) + \
        draw(st.sampled_from([0, 0, 0.25, 0.5]))
    P = draw(st.one_of(st.sampled_from([1, 2, 7, 100, 500, 1500, 60000]), st.integers(1, 60000))) + \
        draw(st.sampled_from([0, 0, 0.125, 0.75]))
    ngaps = draw(st.integers(0, 6))
    gaps = [draw(st.sampled_from([0.05, 0.3, 0.5, 0.8, 0.9])) for _ in range(ngaps)]
    silent = draw(st.booleans()) or ngaps == 0
    respond_acks = draw(st.booleans())
    # what keeps arriving: acknowledgements of the client's own keepalives (no respond flag), or keepalives the server
    # originates itself (respond flag set; the client must echo them, and they prove the server alive just as well)
    return {'echo': False, 'L': L, 'P': P, 'gaps': gaps, 'silent': silent, 'msg': draw(st.booleans()),
            'server_originated': respond_acks,
            # the silence begins with the client's writes failing while its read side neither fails nor ends (a half-open
            # connection): the sender task ends, the silence still has to be noticed
            'write_fault': silent and draw(st.sampled_from([False, False, True])),
            # the handler that receives on_keepalive_timeout is given to the constructor, or installed k loop iterations
            # after connect() returned
            'late_handler': draw(st.sampled_from([0, 0, 0, 1, 3, 6]))}


def judge_timing(case):
    L, P = case['L'], case['P']
    total = sum(g * L for g in case['gaps']) + (2.2 * L if case['silent'] else 0.3 * L)
    # bound the number of periodic keepalives (keeps the run small; the relation between P and L is kept)
    scale = 1.0
    if total / P > 1500:
        P = total / 1500.0
    ops = [['tick', 3], ['mark', 'start']]
    for g in case['gaps']:
        ops.append(['adv', g * L])
        ops.append(['rawframe', {'type': 'KEEPALIVE', 'sid': 0, 'respond': bool(case.get('server_originated')), 'position': 0,
                                 'data': b''}])
        ops.append(['tick', 2])
    ops.append(['mark', 'last_ack'])
    if case.get('write_fault'):
        ops.append(['writefail', 'c'])
    if case['silent']:
        ops.append(['adv', 2.2 * L])
    else:
        ops.append(['adv', 0.3 * L])
    ops.append(['tick', 2])
    ops.append(['mark', 'end'])
    prog = {'cfg': {'msg': case['msg'], 'frag': [None, None], 'rbuf': [1024, 1024], 'raw': 's', 'ka': P / 1000.0, 'life': L / 1000.0,
                    'late_handler': case.get('late_handler', 0)},
            'inter': [], 'ops': ops, 'heal': False}
    tr = run_program(prog)
    out = []
    marks = {e['name']: e for e in tr.world.log if e['ev'] == 'mark'}
    timeouts = [e for e in tr.world.log if e['ev'] == 'on_keepalive_timeout']
    last_ack = marks['last_ack']
    early = [e for e in timeouts if e['seq'] < last_ack['seq']]
    if early:
        out.append(viol('false_keepalive_timeout', 'C15:false_timeout', L_ms=L, P_ms=P, at_ms=round((early[0]['t'] - marks['start']['t']) * 1000, 3),
                        gaps=[round(g * L, 3) for g in case['gaps']]))
    if case['silent']:
        if not timeouts:
            out.append(viol('keepalive_timeout_not_detected', 'C15:timeout_missed', L_ms=L, P_ms=P, silent_ms=round(2.2 * L, 3)))
    else:
        late = [e for e in timeouts if e['seq'] > last_ack['seq']]
        if late:
            out.append(viol('false_keepalive_timeout', 'C15:false_timeout', L_ms=L, P_ms=P, after_last_ack_ms=round(0.3 * L, 3)))
    # periodic emission: respond-flagged KEEPALIVEs every P while the connection is considered alive
    first_timeout_t = timeouts[0]['t'] if timeouts else None
    sends = [e for e in tr.world.wire.get('c', []) if e['f']['type'] == 'KEEPALIVE' and e['f'].get('respond')]
    t0 = marks['start']['t']
    times = [e['t'] for e in sends if first_timeout_t is None or e['t'] < first_timeout_t]
    bad = None
    prev = None
    for t in times:
        if prev is not None and abs((t - prev) - P / 1000.0) > 1e-6:
            bad = (prev, t)
            break
        prev = t
    if bad:
        out.append(viol('keepalive_period_wrong', 'C15:period', P_ms=P, gap_ms=round((bad[1] - bad[0]) * 1000, 6)))
    end_t = first_timeout_t if first_timeout_t is not None else marks['end']['t']
    if case.get('write_fault'):
        # nothing can be written after the fault: the emission count is judged up to that moment
        end_t = marks['last_ack']['t']
        times = [t for t in times if t < end_t]
    connect_t = next((e['t'] for e in tr.world.log if e['ev'] == 'transport_connect_end'), t0)
    expected = int((end_t - connect_t) / (P / 1000.0) + 1e-9)
    if abs(len(times) - expected) > 1:
        out.append(viol('keepalive_count_wrong', 'C15:count', P_ms=P, sent=len(times), expected=expected))
    echoes = sum(1 for e in tr.world.wire.get('c', []) if e['f']['type'] == 'KEEPALIVE' and not e['f'].get('respond'))
    owed = len(case['gaps']) if case.get('server_originated') else 0
    if echoes > owed:
        out.append(viol('unflagged_keepalive_answered', 'C15:answered_unflagged', echoes=echoes, owed=owed))
    elif echoes < owed and not timeouts:
        out.append(viol('keepalive_not_echoed', 'C15:not_echoed:timing', echoes=echoes, owed=owed))
    for err in tr.loop_errors:
        out.append(viol('unhandled_exception', 'C15:loop_error:%s' % err.get('type'), **err))
    return out, case['silent'], ['part=timing', 'silent_end=%s' % case['silent'], 'P>L=%s' % (case['P'] > case['L']),
                                 'arriving=%s' % ('server_keepalives' if case.get('server_originated') else 'acknowledgements'),
                                 'gaps=%d' % len(case['gaps']), 'half_open=%s' % bool(case.get('write_fault'))]


@st.composite
def busy_cases(draw):
    """A client that is busy sending: one large fragmented payload over a slow link takes several keep-alive periods."""
    P = draw(st.sampled_from([20, 50, 100]))
    d = draw(st.sampled_from([1, 2, 5]))
    size = draw(st.sampled_from([3000, 6000, 12000]))
    return {'busy': True, 'P': P, 'L': P * draw(st.sampled_from([6, 10])), 'delay_ms': d, 'size': size,
            'k': draw(st.sampled_from(['fnf', 'rr', 'st'])), 'msg': draw(st.booleans()),
            'second': draw(st.booleans())}


def judge_busy(case):
    P, L, d = case['P'], case['L'], case['delay_ms']
    spec = {'k': case['k'], 'side': 'c', 'req': [case['size'], 0]}
    if case['k'] == 'rr':
        spec['resp'] = {'mode': 'manual', 'p': [3, 0]}
    if case['k'] == 'st':
        spec['src'] = {'kind': 'manual', 'els': [], 'end': 'sep'}
        spec['sub'] = {'n0': 1, 'refill': 0}
    inter = [spec]
    nfr = case['size'] // 50 + 2
    transfer_ms = nfr * d
    ops = [['tick', 3], ['mark', 'start'], ['start']]
    if case['second']:
        inter.append({'k': 'fnf', 'side': 'c', 'req': [case['size'] // 2, 10]})
        ops.append(['start'])
    t = 0.0
    while t < transfer_ms + 2 * P:
        ops.append(['adv', 0.4 * L])
        ops.append(['rawframe', {'type': 'KEEPALIVE', 'sid': 0, 'respond': False, 'position': 0, 'data': b''}])
        t += 0.4 * L
    ops += [['tick', 2], ['mark', 'end']]
    prog = {'cfg': {'msg': case['msg'], 'frag': [64, 64], 'rbuf': [1024, 1024], 'raw': 's', 'ka': P / 1000.0, 'life': L / 1000.0,
                    'write_delay': [d / 1000.0, 0]}, 'inter': inter, 'ops': ops, 'heal': False}
    tr = run_program(prog)
    out = []
    timeouts = [e for e in tr.world.log if e['ev'] == 'on_keepalive_timeout']
    if timeouts:
        out.append(viol('false_keepalive_timeout', 'C15:false_timeout:busy', L_ms=L, P_ms=P, delay_ms=d, size=case['size']))
    sends = [e for e in tr.world.wire.get('c', []) if e['f']['type'] == 'KEEPALIVE' and e['f'].get('respond')]
    frs = [e for e in tr.world.wire.get('c', []) if e['f']['type'] not in ('KEEPALIVE', 'SETUP')]
    busy_until = frs[-1]['t'] if frs else 0
    marks = {e['name']: e for e in tr.world.log if e['ev'] == 'mark'}
    times = [marks['start']['t']] + [e['t'] for e in sends] + [marks['end']['t']]
    # a keepalive that falls due while a fragment is being written waits for that one write (and the one of a second stream)
    slack = (3 * d + 0.001) / 1000.0
    worst = max((b - a) for a, b in zip(times, times[1:]))
    if worst > P / 1000.0 + slack:
        out.append(viol('keepalive_period_wrong', 'C15:period:busy', P_ms=P, worst_gap_ms=round(worst * 1000, 3), delay_ms=d,
                        size=case['size'], fragments=len(frs)))
    during = sum(1 for e in sends if e['t'] <= busy_until)
    for err in tr.loop_errors:
        out.append(viol('unhandled_exception', 'C15:loop_error:%s' % err.get('type'), **err))
    return out, during >= 2, ['part=busy', 'keepalives_during_transfer=%s' % (during if during < 5 else '5+')]


@st.composite
def reconnect_cases(draw):
    """The keepalive machinery on the connection made after a timeout: the handler reconnects from on_keepalive_timeout."""
    P = draw(st.sampled_from([20, 50, 100]))
    return {'after_timeout': True, 'P': P, 'L': P * draw(st.sampled_from([3, 4, 6])),
            'connect': draw(st.sampled_from([None, ['ticks', 1], ['ticks', 3], ['time', 0.005], ['time', 0.02]])),
            'second_silent': draw(st.booleans()), 'msg': draw(st.booleans()),
            # what ended the first connection: the keepalive timeout itself (the handler reconnects from on_keepalive_timeout),
            # or the link (EOF / error; the handler reconnects from on_close, the next transport is there at once)
            'cause': draw(st.sampled_from(['timeout', 'timeout', 'eof', 'error']))}


def judge_after_timeout(case):
    P, L = case['P'], case['L']
    cause = case.get('cause', 'timeout')
    if cause == 'timeout':
        ops = [['tick', 3], ['mark', 'start'], ['adv', 2.3 * L], ['tick', 4], ['settle'], ['mark', 'second']]
    else:
        ops = [['tick', 3], ['mark', 'start'], ['adv', 1.5 * P], ['cut', cause], ['tick', 6], ['settle'], ['mark', 'second']]
    t = 0.0
    while t < 3.2 * L:
        ops.append(['adv', 0.4 * L])
        if not case['second_silent']:
            ops.append(['rawframe', {'type': 'KEEPALIVE', 'sid': 0, 'respond': False, 'position': 0, 'data': b''}])
        t += 0.4 * L
    ops += [['tick', 2], ['mark', 'end']]
    prog = {'cfg': {'msg': case['msg'], 'frag': [None, None], 'rbuf': [1024, 1024], 'raw': 's', 'ka': P / 1000.0, 'life': L / 1000.0,
                    'transports': 2, 'on_ka_timeout': 'reconnect', 'connect': [None, case['connect']]},
            'inter': [], 'ops': ops, 'heal': False}
    if cause != 'timeout':
        del prog['cfg']['on_ka_timeout']
        prog['cfg']['on_close_reconnect'] = True
    tr = run_program(prog)
    out = []
    log = tr.world.log
    marks = {e['name']: e for e in log if e['ev'] == 'mark'}
    timeouts = [e for e in log if e['ev'] == 'on_keepalive_timeout']
    facts = dict(P_ms=P, L_ms=L, connect=case['connect'], second_silent=case['second_silent'], first_connection_ended_by=cause)
    if cause != 'timeout':
        early = [e for e in timeouts if e['seq'] < marks['second']['seq']]
        if early:
            out.append(viol('false_keepalive_timeout', 'C15:false_timeout:first_connection', **facts))
    elif not timeouts or timeouts[0]['seq'] > marks['second']['seq']:
        out.append(viol('keepalive_timeout_not_detected', 'C15:timeout_missed:first_connection', **facts))
        return out, True, ['part=after_timeout']
    second = [e for e in tr.world.wire.get('c', []) if e.get('cx') == 1]
    if not any(e['f']['type'] == 'SETUP' for e in second):
        out.append(viol('no_setup_after_timeout_reconnect', 'C15:after_timeout:no_setup', **facts))
    kas = [e for e in second if e['f']['type'] == 'KEEPALIVE' and e['f'].get('respond')]
    later = [e for e in timeouts if e['seq'] > marks['second']['seq']]
    alive_until = later[0]['t'] if later else marks['end']['t']
    t0 = next((e['t'] for e in log if e['ev'] == 'transport_connect_end' and e.get('cx') == 1), None)
    if t0 is not None:
        expected = int((alive_until - t0) / (P / 1000.0) + 1e-9)
        if abs(len([e for e in kas if e['t'] <= alive_until + 1e-9]) - expected) > 1:
            out.append(viol('keepalive_count_wrong', 'C15:after_timeout:count', sent=len(kas), expected=expected, **facts))
    if case['second_silent'] and not later:
        out.append(viol('keepalive_timeout_not_detected', 'C15:timeout_missed:second_connection', **facts))
    if not case['second_silent'] and later:
        out.append(viol('false_keepalive_timeout', 'C15:false_timeout:second_connection', **facts))
    for err in tr.loop_errors:
        out.append(viol('unhandled_exception', 'C15:loop_error:%s' % err.get('type'), **err))
    return out, True, ['part=after_timeout', 'connect_suspends=%s' % bool(case['connect']), 'first_connection_ended_by=' + cause]


info = {}


def prop(case):
    if case.get('after_timeout'):
        vs, nt, classes = judge_after_timeout(case)
        info['nt'], info['classes'] = nt, classes
        return vs
    if case.get('busy'):
        vs, nt, classes = judge_busy(case)
        info['nt'], info['classes'] = nt, classes
        return vs
    vs, nt, classes = judge_echo(case) if case.get('echo') else judge_timing(case)
    info['nt'], info['classes'] = nt, classes
    return vs


def classify(case, vs):
    return info['nt'], info['classes'], None


def shard(tier, seed, n, which):
    common.use_repo()
    stats = common.Stats()
    known = common.Known(PID)
    strat = {'echo': echo_cases, 'timing': timing_cases, 'busy': busy_cases, 'after_timeout': reconnect_cases}[which]()
    common.hyp_search(stats, known, strat, prop, n, seed, classify=classify)
    return stats


def run(tier, seed):
    t0 = time.time()
    total = 4800 if tier == 'quick' else 60000
    seeds = common.shard_seeds(seed, common.NPROC)
    jobs = [dict(tier=tier, seed=s, n=total // len(seeds), which='echo' if i % 3 == 0 else 'timing') for i, s in enumerate(seeds)]
    jobs += [dict(tier=tier, seed=s + 31, n=(64 if tier == 'quick' else 1600) // 4, which='busy') for s in seeds[:4]]
    jobs += [dict(tier=tier, seed=s + 47, n=(96 if tier == 'quick' else 2400) // 4, which='after_timeout') for s in seeds[:4]]
    stats = common.run_shards(__name__, 'shard', jobs)
    return common.finish(PID, tier, seed, LEVEL, RULE, stats, t0, ASSUMPTIONS)


def replay(path):
    common.use_repo()
    return common.report_replay(PID, path, prop(common.load_replay(path)))
