"""C13, incoming part: a request that reuses an id still active on the receiver is rejected and does not replace the
existing stream (real endpoint vs raw peer)."""
import itertools

from harness import app as A
from harness import common
from harness.common import viol
from harness.programs import run_program

PID = 'C13'
OTHER = {'c': 's', 's': 'c'}


def build(real, k0, reuse, msg, late, frag):
    raw = OTHER[real]
    spec = {'k': k0, 'side': raw, 'req': [6, 2]}
    if k0 == 'rr':
        spec['resp'] = {'mode': 'manual', 'p': [9, 3]}
    else:
        spec['src'] = {'kind': 'manual', 'els': [[5, 0], [7, 1], [3, 3]], 'end': 'sep'}
        spec['sub'] = {'n0': 10, 'refill': 0}
    if k0 == 'ch':
        spec['rsrc'] = {'kind': 'manual', 'els': [], 'end': 'sep'}
        spec['rsub'] = {'n0': 4, 'refill': 0}
    ops = [['tick', 3], ['start'], ['tick', 3]]
    if late and k0 != 'rr':
        ops += [['emit', 0, 'resp', 1], ['tick', 2]]
    ops += [['rawreuse', 0, reuse], ['tick', 3]]
    if k0 == 'rr':
        ops += [['resolve', 0]]
    else:
        ops += [['emit', 0, 'resp', 3], ['end', 0, 'resp']]
    ops += [['tick', 4]]
    return {'cfg': {'msg': msg, 'frag': [frag, frag], 'rbuf': [64, 64], 'raw': raw}, 'inter': [spec], 'ops': ops, 'heal': False,
            'reuse': {'real': real, 'original': k0, 'reuse_with': reuse, 'late': late}}


def prop(program):
    tr = run_program(program)
    out = []
    info = program['reuse']
    real = info['real']
    raw = tr.scn.raw
    st = tr.scn.st[0]
    sid = st['sid']
    spec = st['spec']
    facts = dict(info)
    errors = [f for f in raw.frames if f['sid'] == sid and f['type'] == 'ERROR']
    if not errors:
        out.append(viol('reused_id_not_rejected', 'C13:reuse_not_rejected:%s_on_%s' % (info['reuse_with'], info['original']), **facts))
    elif errors[0].get('code') != 0x202:
        out.append(viol('reused_id_wrong_error_code', 'C13:reuse_wrong_code', code=errors[0].get('code'), **facts))
    handled = [e for e in tr.world.log if e['ev'] == 'handler' and e['side'] == real and e.get('sid') == sid]
    if len(handled) != 1:
        out.append(viol('handler_invoked_for_reused_id', 'C13:reuse_handler_invoked', n=len(handled), **facts))
    # the original interaction still produces its own scripted response
    if info['original'] == 'rr':
        want = [A.payload_bytes(0, A.TAG_RESP, 0, spec['resp']['p'])]
    else:
        want = [A.payload_bytes(0, A.TAG_RESP, i, l) for i, l in enumerate(spec['src']['els'])]
    got = []
    cur = None
    for f in raw.frames:
        if f['sid'] != sid or f['type'] != 'PAYLOAD':
            continue
        if cur is None:
            cur = [b'', b'']
        cur[0] += f.get('data') or b''
        cur[1] += f.get('metadata') or b''
        if not f.get('follows'):
            if cur[0] or cur[1]:
                got.append((cur[0], cur[1]))
            cur = None
    if got != want:
        out.append(viol('original_stream_disturbed', 'C13:reuse_disturbed_original:%s' % info['original'],
                        got=[(len(a), len(b)) for a, b in got], want=[(len(a), len(b)) for a, b in want], **facts))
    for err in tr.loop_errors:
        out.append(viol('unhandled_exception', 'C13:reuse_loop_error', **err))
    return out


def build_own(real, k0, reuse, msg):
    """The id the hostile request arrives on is held by one of the receiver's OWN requests (its own parity)."""
    raw = OTHER[real]
    spec = {'k': k0, 'side': real, 'req': [6, 2]}
    if k0 == 'rr':
        spec['resp'] = {'mode': 'manual', 'p': [9, 3]}
    else:
        spec['src'] = {'kind': 'manual', 'els': [[5, 0]], 'end': 'flag'}
        spec['sub'] = {'n0': 10, 'refill': 0}
    ops = [['tick', 3], ['start'], ['tick', 3], ['rawreuse', 0, reuse], ['tick', 3], ['rawf', 0, 'next_complete', [7, 1]], ['tick', 4]]
    return {'cfg': {'msg': msg, 'frag': [None, None], 'rbuf': [64, 64], 'raw': raw}, 'inter': [spec], 'ops': ops, 'heal': False,
            'reuse_own': {'real': real, 'original': k0, 'reuse_with': reuse}}


def prop_own(program):
    tr = run_program(program)
    out = []
    info = program['reuse_own']
    real = info['real']
    sid = tr.scn.st[0]['sid']
    facts = dict(info)
    errors = [f for f in tr.scn.raw.frames if f['sid'] == sid and f['type'] == 'ERROR']
    if not errors:
        out.append(viol('reused_id_not_rejected', 'C13:reuse_not_rejected:own:%s_on_%s' % (info['reuse_with'], info['original']), **facts))
    elif errors[0].get('code') != 0x202:
        out.append(viol('reused_id_wrong_error_code', 'C13:reuse_wrong_code:own', code=errors[0].get('code'), **facts))
    if any(e['ev'] == 'handler' and e['side'] == real for e in tr.world.log):
        out.append(viol('handler_invoked_for_reused_id', 'C13:reuse_handler_invoked:own', **facts))
    # the receiver's own request is still answered by the frame the peer sent for it afterwards
    evs = [e for e in tr.world.log if e.get('uid') == 0 and e['side'] == real]
    if info['original'] == 'rr':
        ok = any(e['ev'] == 'rr_result' for e in evs)
    else:
        ok = any(e['ev'] == 'on_next' for e in evs)
    if not ok:
        out.append(viol('original_stream_disturbed', 'C13:reuse_disturbed_original:own:%s' % info['original'],
                        got=[e['ev'] for e in evs][:8], **facts))
    for err in tr.loop_errors:
        out.append(viol('unhandled_exception', 'C13:reuse_loop_error', **err))
    return out


def shard(tier, seed, n):
    common.use_repo()
    stats = common.Stats()
    known = common.Known(PID)
    combos = list(itertools.product(('c', 's'), ('rr', 'st', 'ch'), ('rr', 'fnf', 'st', 'ch'), (False, True), (False, True),
                                    (None, 64)))
    for real, k0, reuse, msg, late, frag in combos:
        prog = build(real, k0, reuse, msg, late, frag)
        vs = prop(prog)
        stats.case(prog, True, ['incoming_reuse'], sample_limit=1)
        for v in common.judge(stats, known, prog, vs):
            if not any(v['sig'] == vv['sig'] for vv, _ in stats.violations):
                stats.violations.append((v, prog))
    own = list(itertools.product(('c', 's'), ('rr', 'st'), ('rr', 'fnf', 'st', 'ch'), (False, True)))
    for real, k0, reuse, msg in own:
        prog = build_own(real, k0, reuse, msg)
        vs = prop_own(prog)
        stats.case(prog, True, ['incoming_reuse_of_own_id'], sample_limit=1)
        for v in common.judge(stats, known, prog, vs):
            if not any(v['sig'] == vv['sig'] for vv, _ in stats.violations):
                stats.violations.append((v, prog))
    stats.extra['incoming_reuse_matrix'] = {'combinations': len(combos) + len(own), 'exhaustive': True}
    return stats
