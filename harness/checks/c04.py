"""C04 Decoded frames are independent of how the byte stream is chunked (Engine A + real TransportTCP path)."""
import asyncio
import struct
import time

from hypothesis import strategies as st

from harness import common, frames, refcodec, variants, vloop
from harness.common import viol

PID = 'C04'
LEVEL = 'exploration'
RULE = ('Sequences of 1-8 items, each a valid frame value (all 14 types) or a malformed body (random bytes 0-40, a '
        'valid frame truncated anywhere, unknown type code, body shorter than a header, metadata length pointing past '
        'the end), concatenated with correct 3-byte length prefixes and split at generated cut points biased to fall '
        'inside length prefixes and one byte either side of frame boundaries; every case is decoded under three '
        'partitions (one read, every byte its own read / small stride, generated cuts) through FrameParser.receive_data '
        'and additionally through the real TransportTCP.next_frame_generator fed by an asyncio.StreamReader with a '
        'small read buffer; message mode feeds each item as one message (including the empty message), also through the '
        'incoming queue of AbstractMessagingTransport and through the read loops of the repository\'s six websocket '
        'transports (aiohttp client / server, websockets, asyncwebsockets, quart, channels) given a stand-in websocket '
        'object, with non-binary messages in between, and the length-prefixed stream in the generated chunks through the '
        'QUIC transport (real RSocketQuicProtocol / RSocketQuicTransport over a stand-in QuicConnection); valid frames are also sent through each transport\'s send_frame '
        '(one message per frame, holding its bytes). Oracle: '
        'identical output sequence for every partition (metamorphic) and equal to the reference: each valid frame '
        'exactly once, in order, equal to its value; each malformed body yields what parse_or_ignore does on that '
        'body in isolation (for certainly undecodable bodies: no frame), never disturbing its successors; output '
        'count never exceeds item count (endless generators are caught by a cap). Non-trivial = >= 2 items and a cut '
        'strictly inside a frame or a length prefix; distinct = distinct (bytes, cuts).')
ASSUMPTIONS = ['reference codec provides canonical bytes for valid frames', 'both codec backends are exercised',
               'websocket transports: the glue code is real, the websocket object it reads from / writes to is a stand-in '
               '(no network, no websocket library framing)']

INVALID = 'INVALID'


class Endless(Exception):
    pass


def drain_agen(agen, cap):
    out = []
    while True:
        try:
            item = common.drive(agen.__anext__())
        except StopAsyncIteration:
            break
        out.append(item)
        if len(out) > cap:
            try:
                common.drive(agen.aclose())
            except Exception:
                pass
            raise Endless()
    return out


def view(fr):
    if getattr(fr, 'frame_type', None) is None:
        return INVALID
    try:
        return frames.from_repo(fr)
    except AttributeError as e:
        # a frame object whose fields were never filled in: the decoder handed out something it had not finished parsing
        return {'type': 'HALF_PARSED', 'cls': type(fr).__name__, 'missing': str(e)[-60:]}


@st.composite
def item(draw):
    kind = draw(st.sampled_from(['frame'] * 6 + ['junk', 'trunc', 'unknown', 'short', 'badmeta', 'empty']))
    if kind == 'frame':
        v = draw(frames.any_frame_value())
        for k in ('data', 'metadata', 'token'):
            if isinstance(v.get(k), bytes) and len(v[k]) > 4096:
                v[k] = v[k][:draw(st.sampled_from([300, 1024, 4096]))]
        return {'kind': 'frame', 'v': v}
    if kind == 'junk':
        return {'kind': 'junk', 'body': draw(st.binary(min_size=6, max_size=40))}
    if kind == 'short':
        return {'kind': 'short', 'body': draw(st.binary(min_size=1, max_size=5))}
    if kind == 'empty':
        return {'kind': 'short', 'body': b''}
    if kind == 'unknown':
        code = draw(st.sampled_from([0, 0x0F, 0x10, 0x20, 0x3E, 0x3F]))
        flags = draw(st.integers(0, 0x3FF))
        return {'kind': 'unknown', 'body': struct.pack('>IH', draw(st.integers(0, 0x7FFFFFFF)), (code << 10) | flags) +
                draw(st.binary(max_size=20))}
    if kind == 'trunc':
        v = draw(frames.any_frame_value())
        for k in ('data', 'metadata'):
            if isinstance(v.get(k), bytes) and len(v[k]) > 300:
                v[k] = v[k][:300]
        b = refcodec.encode(frames.normalise(v))
        cut = draw(st.integers(0, max(0, len(b) - 1)))
        return {'kind': 'trunc', 'body': b[:cut]}
    # badmeta: metadata flag set, length field pointing past the end
    t = draw(st.sampled_from(['PAYLOAD', 'REQUEST_RESPONSE', 'REQUEST_FNF']))
    hdr = struct.pack('>IH', draw(st.integers(1, 1000)), (refcodec.TYPES[t] << 10) | 0x100 | draw(st.sampled_from([0, 0x20, 0x60])))
    ln = draw(st.integers(10, 0xFFFFFF))
    return {'kind': 'badmeta', 'body': hdr + refcodec.u24(ln) + draw(st.binary(max_size=8))}


@st.composite
def cases(draw):
    items = draw(st.lists(item(), min_size=1, max_size=8))
    bodies = [body_of(it) for it in items]
    total = sum(len(b) + 3 for b in bodies)
    starts = []
    off = 0
    for b in bodies:
        starts.append(off)
        off += len(b) + 3
    interesting = set()
    for s in starts:
        for d in (-1, 0, 1, 2, 3, 4):
            if 0 < s + d < total:
                interesting.add(s + d)
    pool = sorted(interesting) or [0]
    cuts = draw(st.lists(st.one_of(st.sampled_from(pool), st.integers(0, max(0, total))), max_size=12))
    return {'items': items, 'cuts': sorted(set(c for c in cuts if 0 < c < total)),
            'rbuf': draw(st.sampled_from([1, 2, 3, 5, 7, 64, 1024]))}


def body_of(it):
    if it['kind'] == 'frame':
        return refcodec.encode(frames.normalise(it['v']))
    return it['body']


def partitions(stream, cuts):
    total = len(stream)
    yield 'one', [stream]
    if total <= 1500:
        yield 'bytes', [stream[i:i + 1] for i in range(total)]
    else:
        yield 'stride7', [stream[i:i + 7] for i in range(0, total, 7)]
    pts = [0] + list(cuts) + [total]
    yield 'cuts', [stream[a:b] for a, b in zip(pts, pts[1:])]


def isolated(var, body):
    """What the decoder does with this body alone: frame view, None (ignored) or INVALID (raises)."""
    F = var.mod('rsocket.frame')
    try:
        fr = F.parse_or_ignore(body)
    except Exception:
        return INVALID
    if fr is None:
        return None
    return view(fr)


_MIN_BODY = {0x04: 6 + 0, 0x05: 6, 0x06: 10, 0x07: 10, 0x08: 10, 0x09: 6, 0x0A: 6, 0x0B: 10, 0x03: 14, 0x02: 14, 0x0E: 14}
_LEN_PREFIXED_METADATA = {0x04: 6, 0x05: 6, 0x06: 10, 0x07: 10, 0x0A: 6}


def certainly_undecodable(it, body):
    """No reading of the wire format makes a frame of this body: shorter than a header, unknown type, a fixed-size field of
    the type cut short, or the METADATA flag set with the 3-byte metadata length field itself incomplete."""
    if it['kind'] in ('short', 'unknown') or len(body) < 6:
        return True
    code = body[4] >> 2
    flags = ((body[4] & 0x03) << 8) | body[5]
    if flags & 0x200:
        return False  # IGNORE: the receiver may skip it, nothing is required to fail
    if code in _MIN_BODY and len(body) < _MIN_BODY[code]:
        return True
    if (flags & 0x100) and code in _LEN_PREFIXED_METADATA and len(body) < _LEN_PREFIXED_METADATA[code] + 3:
        return True
    return False


async def via_transport(loop, var, chunks, rbuf, cap, eof='after'):
    """eof: 'after' - EOF arrives once everything was read; 'with_last' - the peer's FIN is already there when the last
    chunk is read; 'all_first' - everything, EOF included, arrived before the receiver started reading."""
    T = var.mod('rsocket.transports.tcp')
    reader = asyncio.StreamReader(limit=2 ** 26)

    class W:
        def close(self):
            pass

    tr = T.TransportTCP(reader, W(), read_buffer_size=rbuf)
    out = []
    total = sum(len(ch) for ch in chunks)
    if eof == 'all_first':
        for ch in chunks:
            if ch:
                reader.feed_data(ch)
        reader.feed_eof()
        chunks = []
    for i, ch in enumerate(chunks):
        if ch:
            reader.feed_data(ch)
        if eof == 'with_last' and i == len(chunks) - 1:
            reader.feed_eof()
        # read everything that is buffered now
        while len(reader._buffer):
            gen = await tr.next_frame_generator()
            if gen is None:
                return out
            async for fr in gen:
                out.append(view(fr))
                if len(out) > cap:
                    raise Endless()
    if not reader.at_eof() or eof == 'after':
        reader.feed_eof()
    for _ in range(cap + total + 4):
        gen = await tr.next_frame_generator()
        if gen is None:
            break
        async for fr in gen:
            out.append(view(fr))
            if len(out) > cap:
                raise Endless()
    return out


async def via_messaging(loop, var, messages, cap):
    """One message per item into a transport built on AbstractMessagingTransport the way the websocket transports do it
    (parser output goes into the incoming queue), then what next_frame_generator() hands to the receiver."""
    AM = var.mod('rsocket.transports.abstract_messaging')

    class T(AM.AbstractMessagingTransport):
        async def send_frame(self, frame):
            pass

        async def close(self):
            pass

    tr = T()
    out = []
    for msg in messages:
        n = 0
        try:
            async for frame in tr._frame_parser.receive_data(msg, 0):
                tr._incoming_frame_queue.put_nowait(frame)
                n += 1
                if n > len(msg) + 16:
                    raise Endless()
        except Endless:
            raise
        except Exception:
            continue  # the real transports end their read loop here; what was queued so far is still read below
        while not tr._incoming_frame_queue.empty():
            try:
                gen = await tr.next_frame_generator()
            except Exception as e:
                out.append(('raised', type(e).__name__))
                continue
            async for fr in gen:
                out.append(view(fr))
                if len(out) > cap + len(messages):
                    raise Endless()
    return out


info = {}


def prop(case):
    out = []
    items = case['items']
    bodies = [body_of(it) for it in items]
    stream = b''.join(refcodec.frame_with_length(b) for b in bodies)
    cap = len(items) + 2
    inside = False
    bounds = set()
    off = 0
    for b in bodies:
        bounds.add(off)
        off += len(b) + 3
    bounds.add(off)
    inside = any(c not in bounds for c in case['cuts'])
    for var in variants.all_variants():
        P = var.mod('rsocket.frame_parser')
        # reference expectation
        expected = []
        for it, b in zip(items, bodies):
            if it['kind'] == 'frame':
                expected.append(frames.ref_view(refcodec.decode(b)))
            else:
                iso = isolated(var, b)
                if certainly_undecodable(it, b):
                    if iso not in (None, INVALID):
                        out.append(viol('undecodable_body_decoded', 'C04:undecodable_body_decoded:' + it['kind'],
                                        backend=var.name, body=b[:32].hex()))
                    iso = INVALID if iso == INVALID else None
                if isinstance(iso, dict) and iso.get('type') == 'HALF_PARSED':
                    # "an undecodable frame produces no frame (at most an invalid-frame marker)": an object whose fields were
                    # never filled in is neither
                    out.append(viol('undecodable_body_decoded', 'C04:half_parsed_frame:' + iso['cls'], backend=var.name,
                                    body=b[:32].hex(), missing=iso['missing']))
                if iso is not None:
                    expected.append(iso)
        results = {}
        for name, chunks in partitions(stream, case['cuts']):
            parser = P.FrameParser()
            got = []
            try:
                for ch in chunks:
                    for fr in drain_agen(parser.receive_data(ch), cap):
                        got.append(view(fr))
                    if len(got) > cap:
                        raise Endless()
            except Endless:
                out.append(viol('decoder_does_not_terminate', 'C04:endless:bytes', backend=var.name, partition=name))
                continue
            except Exception as e:
                is_repo, sig = common.repo_exception_sig(e)
                if not is_repo:
                    raise
                out.append(viol('decoder_raised', 'C04:decoder_raised:%s' % type(e).__name__, backend=var.name,
                                partition=name, exc=repr(e)))
                continue
            results[name] = got
            if len(parser._buffer) != 0:
                out.append(viol('bytes_left_in_buffer', 'C04:bytes_left_in_buffer', backend=var.name, partition=name,
                                left=len(parser._buffer)))
        for name, got in results.items():
            if got != expected:
                kind = ('lost' if len(got) < len(expected) else 'duplicated_or_extra' if len(got) > len(expected)
                        else 'differs')
                out.append(viol('chunking_changes_output', 'C04:output_%s:%s' % (kind, name), backend=var.name,
                                partition=name, n_got=len(got), n_expected=len(expected),
                                first_diff=next((i for i, (a, b) in enumerate(zip(got, expected)) if a != b), None)))
                break
        # real transport path (one partition: the generated cuts, small read buffer)
        if case.get('transport', True) and var.name == variants.all_variants()[0].name:
            pts = [0] + list(case['cuts']) + [len(stream)]
            chunks = [stream[a:b] for a, b in zip(pts, pts[1:])]
            try:
                for eof in ('after', 'with_last', 'all_first'):
                    got = vloop.run_case(via_transport, var, chunks, case['rbuf'], cap, eof)
                    if got != expected:
                        out.append(viol('transport_output_differs', 'C04:transport_output_differs:eof_' + eof, backend=var.name,
                                        rbuf=case['rbuf'], n_got=len(got), n_expected=len(expected)))
                        break
            except Endless:
                out.append(viol('decoder_does_not_terminate', 'C04:endless:transport', backend=var.name))
            except Exception as e:
                is_repo, sig = common.repo_exception_sig(e)
                if not is_repo:
                    raise
                # the receive loop of an endpoint would die here: a delimited frame must never make the transport raise
                out.append(viol('decoder_raised', 'C04:transport_raised:%s' % type(e).__name__, backend=var.name, exc=repr(e)))
        # message mode: one item per message
        parser = P.FrameParser()
        for it, b in zip(items, bodies):
            try:
                got = [view(fr) for fr in drain_agen(parser.receive_data(b, 0), 3)]
            except Endless:
                out.append(viol('decoder_does_not_terminate', 'C04:endless:message:%s' % ('empty' if not b else it['kind']),
                                backend=var.name, body_len=len(b)))
                parser = P.FrameParser()
                continue
            except Exception as e:
                is_repo, sig = common.repo_exception_sig(e)
                if not is_repo:
                    raise
                out.append(viol('decoder_raised', 'C04:message_decoder_raised:%s' % type(e).__name__, backend=var.name,
                                exc=repr(e)))
                parser = P.FrameParser()
                continue
            if it['kind'] == 'frame':
                want = [frames.ref_view(refcodec.decode(b))]
            else:
                iso = isolated(var, b)
                if certainly_undecodable(it, b):
                    iso = INVALID if iso == INVALID else None
                want = [iso] if iso is not None else []
            if got != want and not (certainly_undecodable(it, b) and got in ([], [INVALID])):
                out.append(viol('message_output_differs', 'C04:message_output_differs:' + it['kind'], backend=var.name,
                                n_got=len(got), n_want=len(want)))
        # message mode through the queue every message transport is built on (AbstractMessagingTransport): what the
        # endpoint's receiver gets from next_frame_generator() for the same messages
        if var.name == variants.all_variants()[0].name:
            try:
                seq = vloop.run_case(via_messaging, var, bodies, len(items) + 2)
            except Endless:
                seq = None
                out.append(viol('decoder_does_not_terminate', 'C04:endless:message_transport', backend=var.name))
            if seq is not None:
                want_seq = []
                for it, b in zip(items, bodies):
                    if it['kind'] == 'frame':
                        want_seq.append(frames.ref_view(refcodec.decode(b)))
                    else:
                        iso = isolated(var, b)
                        if certainly_undecodable(it, b):
                            iso = INVALID if iso == INVALID else None
                        if iso is not None:
                            want_seq.append(iso)
                raised = [x for x in seq if isinstance(x, tuple) and x[0] == 'raised']
                if raised:
                    out.append(viol('message_transport_raised', 'C04:message_transport_raised:%s' % raised[0][1], backend=var.name,
                                    after=seq.index(raised[0]), n_expected=len(want_seq)))
                else:
                    strip = lambda l: [x for x in l if x != INVALID]
                    if strip(seq) != strip(want_seq):
                        out.append(viol('message_output_differs', 'C04:message_transport_output_differs', backend=var.name,
                                        n_got=len(seq), n_want=len(want_seq)))
    info['nt'] = len(items) >= 2 and inside
    kinds = sorted(set(it['kind'] for it in items))
    info['classes'] = ['items=%d' % len(items), 'has_malformed=%s' % any(k != 'frame' for k in kinds),
                       'cut_inside=%s' % inside,
                       'cut_in_prefix=%s' % any((c - s) in (1, 2) for c in case['cuts'] for s in bounds)]
    info['key'] = common.case_hash([stream.hex() if len(stream) < 4000 else common.case_hash(stream.hex()), case['cuts']])
    return out


def glue_prop(case):
    """The same items, one per message, through the read loops of the repository's own websocket transports (aiohttp client
    and server, websockets, asyncwebsockets, quart, Django channels; the websocket object is a stand-in, harness/glue.py),
    with non-binary messages in between where the library has them: the receiver gets exactly the frame of each message,
    in order. And the other way round: every valid frame handed to send_frame leaves as one message holding its bytes."""
    from harness import glue
    out = []
    items = case['items']
    bodies = [body_of(it) for it in items]
    var = variants.all_variants()[0]
    want_seq = []
    for it, b in zip(items, bodies):
        if it['kind'] == 'frame':
            want_seq.append(frames.ref_view(refcodec.decode(b)))
        else:
            iso = isolated(var, b)
            if certainly_undecodable(it, b):
                iso = INVALID if iso == INVALID else None
            if iso is not None:
                want_seq.append(iso)
    strip = lambda l: [x for x in l if x != INVALID]
    valid = [it['v'] for it in items if it['kind'] == 'frame']
    valid_bodies = [b for it, b in zip(items, bodies) if it['kind'] == 'frame']
    for g in glue.GLUES:
        try:
            got = vloop.run_case(glue.feed, g, bodies, bool(case.get('noise', True)), len(items) + 2)
        except (glue.Endless, common.CaseTimeout):
            out.append(viol('decoder_does_not_terminate', 'C04:endless:glue:' + g, glue=g))
            continue
        except Exception as e:
            is_repo, sig = common.repo_exception_sig(e)
            if not is_repo:
                raise
            out.append(viol('message_transport_raised', 'C04:glue_raised:%s:%s' % (g, type(e).__name__), glue=g, exc=repr(e)))
            continue
        raised = [x for x in got if isinstance(x, tuple)]
        if raised:
            out.append(viol('message_transport_raised', 'C04:glue_queue_raised:%s:%s' % (g, raised[0][1]), glue=g))
            continue
        seq = [view(fr) for fr in got]
        if strip(seq) != strip(want_seq):
            out.append(viol('message_output_differs', 'C04:glue_output_differs:' + g, glue=g, n_got=len(seq), n_want=len(want_seq),
                            first_diff=next((i for i, (a, b) in enumerate(zip(strip(seq), strip(want_seq))) if a != b), None)))
        try:
            sent = vloop.run_case(glue.emit, g, [frames.to_repo(var, v) for v in valid])
        except Exception as e:
            is_repo, sig = common.repo_exception_sig(e)
            if not is_repo:
                raise
            out.append(viol('message_transport_raised', 'C04:glue_send_raised:%s:%s' % (g, type(e).__name__), glue=g, exc=repr(e)))
            continue
        if sent != valid_bodies:
            out.append(viol('message_output_differs', 'C04:glue_sent_differs:' + g, glue=g, n_sent=len(sent), n_frames=len(valid_bodies)))
    # byte framing over the QUIC transport: the length-prefixed stream arrives in the generated chunks
    stream = b''.join(refcodec.frame_with_length(b) for b in bodies)
    pts = [0] + list(case['cuts']) + [len(stream)]
    for name, chunks in (('cuts', [stream[a:b] for a, b in zip(pts, pts[1:])]), ('one', [stream]),
                         ('bytes', [stream[i:i + 1] for i in range(len(stream))] if len(stream) <= 600 else None)):
        if chunks is None:
            continue
        try:
            got = vloop.run_case(glue.feed_quic, chunks, len(items) + 2)
        except (glue.Endless, common.CaseTimeout):
            out.append(viol('decoder_does_not_terminate', 'C04:endless:glue:aioquic', glue='aioquic', partition=name))
            break
        except Exception as e:
            is_repo, sig = common.repo_exception_sig(e)
            if not is_repo:
                raise
            out.append(viol('message_transport_raised', 'C04:glue_raised:aioquic:%s' % type(e).__name__, glue='aioquic',
                            partition=name, exc=repr(e)))
            break
        if any(isinstance(x, tuple) for x in got):
            out.append(viol('message_transport_raised', 'C04:glue_queue_raised:aioquic', glue='aioquic', partition=name))
            break
        seq = [view(fr) for fr in got]
        if strip(seq) != strip(want_seq):
            out.append(viol('chunking_changes_output', 'C04:glue_output_differs:aioquic:' + name, glue='aioquic', partition=name,
                            n_got=len(seq), n_want=len(want_seq)))
            break
    info['nt'] = len(items) >= 2
    info['classes'] = ['part=glue', 'items=%d' % len(items), 'has_malformed=%s' % any(it['kind'] != 'frame' for it in items)]
    info['key'] = common.case_hash(['glue'] + [b.hex() if len(b) < 2000 else common.case_hash(b.hex()) for b in bodies])
    return out


def glue_shard(tier, seed, n):
    common.use_repo()
    stats = common.Stats()
    known = common.Known(PID)
    variants.load()
    common.hyp_search(stats, known, cases().map(lambda c: dict(c, glue=True)), glue_prop, n, seed, classify=classify, shrink=True)
    return stats


def classify(case, vs):
    return info['nt'], info['classes'], info['key']


REGRESSION = [
    {'items': [{'kind': 'short', 'body': b''}, {'kind': 'frame', 'v': {'type': 'CANCEL', 'sid': 3}}], 'cuts': [1, 4],
     'rbuf': 1},
]


def shard(tier, seed, n):
    common.use_repo()
    stats = common.Stats()
    known = common.Known(PID)
    variants.load()
    stats.extra['backends'] = [v.name for v in variants.all_variants()]
    if n is None:
        for c in REGRESSION:
            vs = prop(c)
            stats.case(c, True, ['regression'])
            for v in common.judge(stats, known, c, vs):
                stats.violations.append((v, c))
        return stats
    common.hyp_search(stats, known, cases(), prop, n, seed, classify=classify, shrink=True)
    return stats


def run(tier, seed):
    t0 = time.time()
    total = 4000 if tier == 'quick' else 150000
    nsh = common.NPROC
    jobs = [dict(tier=tier, seed=0, n=None)] + [dict(tier=tier, seed=s, n=total // nsh) for s in common.shard_seeds(seed, nsh)]
    mj = [('shard', j) for j in jobs]
    nglue = 640 if tier == 'quick' else 24000
    mj += [('glue_shard', dict(tier=tier, seed=s + 59, n=nglue // 8)) for s in common.shard_seeds(seed, 8)]
    stats = common.run_shards_multi(__name__, mj)
    if tier == 'thorough':
        from harness import fuzz
        fuzz.run_atheris(stats, PID, 'c04', seed, runs=2000000, max_seconds=240)
    return common.finish(PID, tier, seed, LEVEL, RULE, stats, t0, ASSUMPTIONS)


def replay(path):
    common.use_repo()
    variants.load()
    case = common.load_replay(path)
    return common.report_replay(PID, path, glue_prop(case) if case.get('glue') else prop(case))
