"""C10 No per-stream state survives a terminated interaction (Engine B, DESIGN 3/C10)."""
import time

from hypothesis import strategies as st

from harness import common, gen, monitors
from harness.common import viol
from harness.programs import run_program

PID = 'C10'
LEVEL = 'exploration'
RULE = ('Hypothesis-generated SimNet programs with 1-12 interactions of all models and every ending: completion, '
        'completion flagged on the last element, empty completion, application error (failed future, raising handler, '
        'failing publisher / generator), cancel by the requester or by the channel responder, cancel racing completion, '
        'both closing orders of a channel, channels without publisher or without subscriber, with and without '
        'fragmentation (including fragmented REQUEST_CHANNEL with the complete flag), both roles; the stream id space of '
        'both endpoints is reduced the way the suite does (_maximum_stream_id 0xF / 0x3F) so ids wrap and are reused '
        'within a run. Oracle at quiescence: for every interaction that has terminated at the API neither endpoint\'s '
        'stream table contains its id and neither reassembly cache holds a partial frame; interactions that reuse a '
        'wrapped id satisfy the C01 delivery oracle; and when every interaction has terminated, a structural summary of '
        'each endpoint object (all instance attributes) equals that of an endpoint that has served nothing, except the '
        'stream id cursor. Non-trivial = an abnormal ending (error or cancel) of a channel '
        'while its other direction was still open, or a reused stream id; distinct = program hash. Plus (raw peer, '
        'exhaustive to a depth bound): a harness-scripted peer opens payload fragment trains (PAYLOAD with FOLLOWS) for '
        'a request-response / stream / channel of the real endpoint in either role and the interaction ends while a '
        'train is open (peer ERROR, local cancel, or the train closed by a fragment carrying COMPLETE); when the protocol '
        'says the interaction is over the real endpoint must hold neither the stream entry nor a partial frame; '
        'non-trivial there = a train was open when the interaction ended. And: a raw requester ends a request-response / '
        'stream (CANCEL, or after the answer) and opens a new request of any type on the same id, in the same read or a '
        'later one: it must be dispatched, not rejected as "id in use".')
ASSUMPTIONS = ['observation = StreamControl._streams and FrameFragmentCache._frames_by_stream_id (what the suite\'s own '
               'assert_no_open_streams reads)', 'interactions that never terminate at the API are not required to be gone']

SRC_KINDS = ['gen', 'agen', 'rx4', 'rx3bp']


def any_src(frag, ends=('flag', 'sep', 'error')):
    lib = st.fixed_dictionaries({'kind': st.sampled_from(SRC_KINDS), 'els': st.lists(gen.nonempty_lens(frag, 2), max_size=5),
                                 'end': st.sampled_from(['flag', 'sep']), 'awaits': st.integers(0, 2),
                                 'pace': st.sampled_from([0, 0, 0, 4, 25]),
                                 'err_at': st.one_of(st.none(), st.none(), st.integers(0, 5))})
    return st.one_of(gen.manual_src(frag, ends=ends, max_frags=3, max_els=4), lib)


@st.composite
def programs(draw):
    frag = draw(gen.frag_pair())
    cfg = {'msg': draw(st.booleans()), 'frag': frag, 'rbuf': draw(gen.rbufs()),
           'idmask': draw(st.sampled_from([0xF, 0xF, 0x3F, None])),
           # how the scripted application builds the exceptions it raises / fails with
           'exc_style': draw(st.sampled_from(['str', 'str', 'str', 'none', 'int', 'nested', 'tuple', 'bytes']))}
    slow = draw(st.integers(0, 3)) == 0
    if slow:
        # a slow link: every write takes 1 ms of virtual time, so a fragment train is on its way for a while and the
        # other side's frames (a CANCEL, say) are processed in the middle of it
        cfg['write_delay'] = draw(st.sampled_from([[0.001, 0.001], [0, 0.001], [0.001, 0]]))
        # with the id space reduced to 8 ids a fire-and-forget frame that waits in the send queue can see its (unregistered)
        # id handed out again before it is sent; with 2^30 ids that takes 2^30 allocations during one queue residence
        cfg['idmask'] = None
    n = draw(st.integers(1, 12))
    inter = []
    for i in range(n):
        side = draw(st.sampled_from(['c', 'c', 's']))
        fr_req = frag[0] if side == 'c' else frag[1]
        fr_resp = frag[1] if side == 'c' else frag[0]
        k = draw(st.sampled_from(['rr', 'fnf', 'st', 'st', 'ch', 'ch', 'ch']))
        spec = {'k': k, 'side': side, 'req': draw(gen.lens(fr_req, 3))}
        if k == 'rr':
            spec['resp'] = {'mode': draw(st.sampled_from(['now', 'manual', 'late', 'fail', 'raise'])),
                            'delay': draw(st.integers(1, 10)), 'p': draw(gen.lens(fr_resp, 3))}
        if k in ('st', 'ch'):
            spec['src'] = draw(any_src(fr_resp))
            spec['sub'] = draw(gen.sub_spec())
            if draw(st.integers(0, 9)) == 0:
                spec['handler_raises'] = True
            elif k == 'st' and draw(st.integers(0, 7)) == 0:
                # the publisher is obtained now, subscribed to later - or dropped (cancelled) without ever being subscribed
                spec['late_subscribe'] = True
        if k == 'ch':
            spec['rsrc'] = draw(st.one_of(st.none(), any_src(fr_req)))
            spec['rsub'] = draw(st.one_of(st.none(), gen.sub_spec(), gen.sub_spec()))
            if draw(st.integers(0, 5)) == 0:
                spec['src'] = None
            if draw(st.integers(0, 3)) == 0:
                # neither side has anything to say after the request (which may itself need several fragments): the channel is
                # over as soon as it was opened, on both endpoints
                spec['rsrc'] = None
                spec['src'] = None
                spec['rsub'] = draw(st.one_of(st.none(), gen.sub_spec(), gen.sub_spec()))
                if fr_req:
                    spec['req'] = [fr_req * draw(st.integers(1, 3)) + draw(st.integers(0, 9)), draw(st.sampled_from([0, 0, 5]))]
        inter.append(spec)
    single = st.one_of(
        st.just(('start',)), st.just(('start',)),
        st.tuples(st.just('emit'), st.integers(0, 11), st.sampled_from(['resp', 'req']), st.integers(1, 3)),
        st.tuples(st.just('end'), st.integers(0, 11), st.sampled_from(['resp', 'req'])),
        st.tuples(st.just('resolve'), st.integers(0, 11)),
        st.tuples(st.just('cancel'), st.integers(0, 11), st.sampled_from(['resp', 'resp', 'req'])),
        st.tuples(st.just('subscribe'), st.integers(0, 11)),
        st.tuples(st.just('abandon'), st.integers(0, 11)),
        st.tuples(st.just('tick'), st.integers(1, 4)),
        st.tuples(st.just('adv'), st.integers(1, 20)),
        st.tuples(st.just('deliver'), st.sampled_from(['c', 's']), st.one_of(st.none(), st.integers(1, 80))),
        st.tuples(st.just('regime'), st.sampled_from(['pumped', 'manual'])),
    )
    macro = st.one_of(
        st.integers(0, 11).map(lambda i: [('end', i, 'resp'), ('cancel', i, 'resp'), ('tick', 1)]),
        st.integers(0, 11).map(lambda i: [('end', i, 'req'), ('tick', 2), ('end', i, 'resp'), ('tick', 2)]),
        st.integers(0, 11).map(lambda i: [('end', i, 'resp'), ('tick', 2), ('end', i, 'req'), ('tick', 2)]),
        st.just([('start',), ('tick', 3), ('regime', 'pumped'), ('tick', 6)]),
        # cancelled in the turn it was issued in (its request frame, or a part of it, may still be queued)
        st.sampled_from(['resp', 'resp', 'req']).map(lambda d: [('start',), ('cancel', -1, d), ('tick', 3)]),
        st.integers(1, 3).map(lambda k: [('start',), ('tick', k), ('cancel', -1, 'resp'), ('tick', 3)]),
        # a response that has reached the requester's reader when the application cancels: it is dispatched before the
        # cancellation's own callback runs
        st.sampled_from(['c', 's']).map(lambda sd: [('regime', 'manual'), ('start',), ('tick', 2), ('deliver', 'c', None),
                                                   ('deliver', 's', None), ('tick', 2), ('resolve', -1), ('tick', 2),
                                                   ('deliver', 'c', None), ('deliver', 's', None), ('cancel', -1, 'resp'),
                                                   ('tick', 3), ('regime', 'pumped'), ('tick', 3)]),
        # (slow link) cancel a few milliseconds into a large element
        st.tuples(st.integers(0, 11), st.integers(1, 6)).map(
            lambda a: [('regime', 'pumped'), ('emit', a[0], 'resp', 1), ('adv', a[1]), ('cancel', a[0], 'resp'), ('adv', 40), ('tick', 3)]),
        # cancel while a fragment train of that stream is partly delivered: the rest of the train is still owed by the sender
        st.tuples(st.integers(0, 11), st.sampled_from(['c', 's']), st.integers(60, 260)).map(
            lambda a: [('regime', 'manual'), ('emit', a[0], 'resp', 1), ('tick', 2), ('deliver', a[1], a[2]), ('tick', 1),
                       ('cancel', a[0], 'resp'), ('tick', 1), ('deliver', 'c', None), ('tick', 1), ('deliver', 's', None), ('tick', 2),
                       ('deliver', 'c', None), ('deliver', 's', None), ('regime', 'pumped'), ('tick', 3)]),
    )
    chunks = draw(st.lists(st.one_of(single.map(lambda o: [o]), single.map(lambda o: [o]), macro), min_size=2, max_size=30))
    ops = [list(o) for ch in chunks for o in ch]
    missing = max(0, n - sum(1 for o in ops if o[0] == 'start'))
    for _ in range(missing):
        ops.extend([['start'], ['tick', 2]])
    if slow:
        cand = [i for i, sp in enumerate(inter) if sp['k'] in ('st', 'ch') and (sp.get('src') or {}).get('kind') == 'manual'
                and not sp.get('handler_raises')]
        if cand:
            # one large element on the slow link, cancelled by the requester a few writes into its fragment train
            i = draw(st.sampled_from(cand))
            fs = cfg['frag'][1 if inter[i]['side'] == 'c' else 0]
            if fs is None:
                cfg['frag'] = [cfg['frag'][0] or 64, cfg['frag'][1] or 64]
                fs = 64
            inter[i]['src'] = dict(inter[i]['src'], els=[[fs * draw(st.integers(4, 9)), 0]] + list(inter[i]['src']['els'])[:2])
            ops += [['regime', 'pumped'], ['adv', 30], ['emit', i, 'resp', 1], ['adv', draw(st.integers(1, 6))], ['cancel', i, 'resp'],
                    ['adv', 40], ['tick', 3]]
    for i, sp in enumerate(inter):
        if sp.get('late_subscribe'):
            # every cold publisher is eventually subscribed to or dropped
            ops += [[draw(st.sampled_from(['abandon', 'abandon', 'subscribe'])), i], ['tick', 3]]
    return {'cfg': cfg, 'inter': inter, 'ops': ops}


info = {}
_fresh = {}


def fresh_state(cfg):
    """What a connected endpoint pair with this configuration looks like before it has served anything."""
    key = common.jdump(cfg)
    if key not in _fresh:
        if len(_fresh) > 64:
            _fresh.clear()
        _fresh[key] = run_program({'cfg': cfg, 'inter': [], 'ops': [['tick', 3], ['settle']], 'heal': False}).final
    return _fresh[key]


def state_diff(a, b, path, acc):
    if isinstance(a, dict) and isinstance(b, dict):
        for k in sorted(set(a) | set(b)):
            state_diff(a.get(k, '<missing>'), b.get(k, '<missing>'), path + '.' + k, acc)
    elif a != b:
        acc.append((path, a, b))


def mon_like_new(tr, program):
    """Every interaction has terminated and the run is quiescent: each endpoint's instance state (every attribute:
    scalars by value, containers and queues by size, tasks / futures by state, stream table, lease objects and reassembly
    cache one level down) equals that of an endpoint that has served nothing - except the stream id cursor."""
    out = []
    if not tr.quiet or tr.faulted or not all(monitors.api_terminated(tr, u) for u in tr.scn.started):
        return out
    fresh = fresh_state(program['cfg'])
    for side in ('c', 's'):
        if side not in tr.final or 'state' not in tr.final[side] or side not in fresh:
            continue
        acc = []
        state_diff(fresh[side]['state'], tr.final[side]['state'], '', acc)
        acc = [d for d in acc if d[0] != '._stream_control._current_stream_id']
        if acc:
            out.append(viol('state_retained_after_all_interactions_ended', '%s:retained:%s' % (PID, acc[0][0].lstrip('.')), side=side,
                            differences=[[p_, repr(a)[:50], repr(b)[:50]] for p_, a, b in acc[:6]]))
    return out


def prop(program):
    tr = run_program(program)
    vs = []
    # interactions on reused ids must still be delivered correctly (only undisturbed ones are judged by mon_delivery)
    disturbed = set(u for u in tr.scn.started if monitors.tr_stream_interrupted(tr, u))
    sids = {}
    reused = False
    for u in tr.scn.started:
        key = (tr.scn.st[u]['spec']['side'], tr.scn.st[u]['sid'])
        if key[1] and key in sids:
            reused = True
        sids[key] = u
    # a reused id whose previous life ended abnormally (cancel) may still have frames of that life in flight: the protocol
    # has no way to tell them from the new interaction's frames, so the new interaction is not judged either
    skip = set(disturbed)
    seen_disturbed = set()
    poisoned = set()
    for u in tr.scn.started:
        key = (tr.scn.st[u]['spec']['side'], tr.scn.st[u]['sid'])
        if key in seen_disturbed:
            skip.add(u)
            poisoned.add(u)
        if u in disturbed:
            seen_disturbed.add(key)
    # ... and neither is what it leaves behind: a stale terminal frame of the cancelled life can end the new interaction on
    # one endpoint only (with the suite's 15-id space an id comes round within a few requests; with 2^30 ids it does not)
    vs += monitors.mon_no_state(tr, PID, skip_uids=poisoned)
    if not poisoned:
        vs += mon_like_new(tr, program)
    vs += monitors.mon_delivery(tr, PID, skip_uids=skip)
    abnormal_channel = any(tr.scn.st[u]['spec']['k'] == 'ch' and u in disturbed for u in tr.scn.started)
    info['nt'] = reused or abnormal_channel
    info['classes'] = ['reused_id=%s' % reused, 'reused_id_judged=%s' % (reused and len(skip) == len(disturbed)),
                       'abnormal_channel_end=%s' % abnormal_channel, 'quiescent=%s' % tr.quiet,
                       'slow_link=%s' % bool(program['cfg'].get('write_delay')),
                       'interactions=%s' % (len(tr.scn.started) if len(tr.scn.started) < 9 else '9+'),
                       'all_terminated=%s' % all(monitors.api_terminated(tr, u) for u in tr.scn.started)]
    return vs


def classify(case, vs):
    return info.get('nt', False), info.get('classes', ()), None


REGRESSION = [
    # D3: fragmented REQUEST_CHANNEL with the complete flag (requester without publisher)
    {'cfg': {'msg': False, 'frag': [64, 64], 'rbuf': [1024, 1024]},
     'inter': [{'k': 'ch', 'side': 'c', 'req': [200, 0], 'src': {'kind': 'manual', 'els': [[5, 0]], 'end': 'sep'},
                'sub': {'n0': 5, 'refill': 0}, 'rsrc': None, 'rsub': {'n0': 5, 'refill': 0}}],
     'ops': [['start'], ['tick', 6], ['emit', 0, 'resp', 1], ['end', 0, 'resp'], ['tick', 4]]},
]


def shard(tier, seed, n):
    common.use_repo()
    stats = common.Stats()
    known = common.Known(PID)
    if n is None:
        for p in REGRESSION:
            vs = prop(p)
            stats.case(p, True, ['regression'])
            for v in common.judge(stats, known, p, vs):
                stats.violations.append((v, p))
        return stats
    common.hyp_search(stats, known, programs(), prop, n, seed, classify=classify, shrink=True)
    return stats


def run(tier, seed):
    t0 = time.time()
    total = 2000 if tier == 'quick' else 60000
    nsh = common.NPROC
    jobs = [('shard', dict(tier=tier, seed=0, n=None))] + [('shard', dict(tier=tier, seed=s, n=total // nsh))
                                                             for s in common.shard_seeds(seed, nsh)]
    depth = 4 if tier == 'quick' else 6
    parts = 1 if tier == 'quick' else 8
    for real in ('c', 's'):
        for k, role in (('rr', 'requester'), ('st', 'requester'), ('ch', 'requester'), ('ch', 'responder')):
            d = depth + 1 if k == 'rr' else depth
            for part in range(parts):
                jobs.append(('raw_shard', dict(tier=tier, seed=seed, real=real, k=k, role=role, depth=d, part=part, parts=parts)))
    jobs.append(('reuse_shard', dict(tier=tier, seed=seed)))
    for s in common.shard_seeds(seed, 4):
        jobs.append(('reconnect_shard', dict(tier=tier, seed=s + 61, n=(160 if tier == 'quick' else 4000) // 4)))
    stats = common.run_shards_multi(__name__, jobs)
    stats.extra['rawpeer_depth'] = depth
    return common.finish(PID, tier, seed, LEVEL, RULE, stats, t0, ASSUMPTIONS)


def raw_shard(**kw):
    from harness.checks import c10_raw
    return c10_raw.shard(**kw)


def reconnect_prop(wrapped):
    """One client object over several connections (C17's histories with fragmentation on; the previous connection ended with
    the server half way through a fragmented request or channel element): nothing of an earlier connection is left in the
    client's reassembly cache once the new connection has settled, and the ids those leftovers had are usable again (the
    probes on the new connection, which re-use them, are delivered)."""
    from harness.checks import c17
    case = wrapped['reconnect']
    prog, plan = c17.build(case)
    tr = run_program(prog)
    vs = []
    fin = tr.final.get('c', {})
    if fin.get('frags'):
        vs.append(common.viol('partial_frame_survives', '%s:partial_frame:after_reconnect' % PID, side='c', sids=fin['frags']))
    probe_uids = [u for p_ in plan for u in p_['probes']]
    skip = set(range(len(prog['inter']))) - set(probe_uids)
    vs += monitors.mon_delivery(tr, PID, require_complete=False, skip_uids=skip)
    info['nt'] = any(e.get('server_partial') for e in case['endings'])
    info['classes'] = ['part=reconnect', 'reconnects=%d' % len(case['endings'])]
    return vs


def reconnect_shard(tier, seed, n):
    from harness.checks import c05
    common.use_repo()
    stats = common.Stats()
    known = common.Known(PID)
    common.hyp_search(stats, known, c05.reconnect_cases(), reconnect_prop, n, seed, classify=classify, shrink=False)
    return stats


def reuse_shard(**kw):
    from harness.checks import c10_raw
    return c10_raw.reuse_shard(**kw)


def replay(path):
    common.use_repo()
    case = common.load_replay(path)
    if case.get('rawpeer'):
        from harness.checks import c10_raw
        return common.report_replay(PID, path, c10_raw.prop(case))
    if 'reconnect' in case:
        return common.report_replay(PID, path, reconnect_prop(case))
    return common.report_replay(PID, path, prop(case))
