"""C16 Setup handshake: faithful SETUP first; correct accept/reject (Engine B/C)."""
import time
from datetime import timedelta

from hypothesis import strategies as st

from harness import app as A
from harness import common, gen
from harness.common import viol
from harness.programs import run_program

PID = 'C16'
LEVEL = 'exploration'
RULE = ('Client: Hypothesis-generated configurations - keep_alive_period / max_lifetime_period as timedeltas with '
        'millisecond and microsecond parts (never an exact half millisecond), data / metadata encodings given as enum, '
        'bytes or str (1-100 bytes), lease flag, optional setup payload, fragment size, byte and message framing - on '
        'transports whose connect() returns at once or suspends for k ticks / t seconds, with 0-3 requests of all kinds '
        'issued j ticks after connect() began (before and after it returns), keep-alive periods shorter than the '
        'suspension, and 0-2 reconnects on fresh transports. Oracle: on every connection the first frame handed to the '
        'transport is SETUP and there is exactly one; decoded from the written bytes by the reference codec it has version '
        '1.0, keep_alive == round(P ms), max_lifetime == round(L ms), the configured MIME strings, lease flag and payload. '
        'Server: SETUP frames from a raw client over all flag / encoding / payload combinations, with and without a lease '
        'publisher, on_setup recording or raising, followed by an optional RESUME: an acceptable SETUP reaches on_setup '
        'exactly once with those values; resume flag, or lease flag without a lease publisher -> ERROR UNSUPPORTED_SETUP on '
        'stream 0 and on_setup not called; on_setup raising -> REJECTED_SETUP on stream 0; RESUME -> REJECTED_RESUME on '
        'stream 0. Non-trivial = a request or keepalive became sendable before SETUP was queued, or a period with a '
        'sub-second part, or a rejected setup; distinct = case hash.')
ASSUMPTIONS = ['SETUP fields are read from the bytes written, decoded by the reference codec']

ENUMS = {'APPLICATION_JSON': b'application/json', 'TEXT_PLAIN': b'text/plain', 'APPLICATION_CBOR': b'application/cbor',
         'MESSAGE_RSOCKET_COMPOSITE_METADATA': b'message/x.rsocket.composite-metadata.v0',
         'MESSAGE_RSOCKET_ROUTING': b'message/x.rsocket.routing.v0'}


def encoding():
    return st.one_of(
        st.sampled_from(sorted(ENUMS)).map(lambda n: {'enum': n}),
        st.binary(min_size=1, max_size=100).filter(lambda b: True),
        st.text(alphabet=st.characters(min_codepoint=33, max_codepoint=126), min_size=1, max_size=60).map(lambda s: {'str': s}),
    )


def expected_mime(v):
    if isinstance(v, dict) and 'enum' in v:
        return ENUMS[v['enum']]
    if isinstance(v, dict) and 'str' in v:
        return v['str'].encode('utf-8')
    return v


def period():
    """(milliseconds int part, microseconds) -> total microseconds; never an exact half millisecond"""
    ms = st.one_of(st.sampled_from([0, 1, 2, 100, 499, 500, 999, 1000, 1500, 2500, 60000, 600000, 3600000]), st.integers(0, 2000000),
                   # hours and days, up to the 31-bit maximum of the wire field
                   st.sampled_from([86399999, 86400000, 86400001, 172803250, 0x7FFFFFFF - 1]), st.integers(2000000, 0x7FFFFFFF - 1))
    us = st.sampled_from([0, 0, 0, 1, 100, 250, 499, 501, 750, 999])
    return st.tuples(ms, us).map(lambda t: t[0] * 1000 + t[1]).filter(lambda x: x >= 1000)


@st.composite
def client_cases(draw):
    P = draw(period())
    L = draw(period())
    nconn = draw(st.sampled_from([1, 1, 2, 3]))
    scripts = []
    for i in range(nconn):
        scripts.append(draw(st.sampled_from([None, None, ['ticks', 1], ['ticks', 3], ['time', 0.002], ['time', 0.4], ['time', 2.5]])))
    nreq = draw(st.integers(0, 3))
    reqs = [{'k': draw(st.sampled_from(['rr', 'fnf', 'mp', 'st', 'ch'])), 'at': draw(st.integers(0, 5))} for _ in range(nreq)]
    payload = draw(st.one_of(st.none(), st.tuples(st.integers(0, 300), st.integers(0, 80)).map(list)))
    # a connect() that takes longer than the maximum lifetime is reported as a keepalive timeout before the connection
    # exists; whether that is right is not part of the statement, so the suspension is kept below L (steered)
    for i, sc in enumerate(scripts):
        if sc and sc[0] == 'time' and sc[1] * 1e6 >= L * 0.8:
            scripts[i] = ['time', max(0.0005, round(L * 0.5 / 1e6, 6))]
    return {'client': True, 'P_us': P, 'L_us': L, 'scripts': scripts, 'reqs': reqs, 'payload': payload,
            'provider_delay': [draw(st.sampled_from([0, 0, 1, 3, 6])) for _ in range(nconn)],
            'data_encoding': draw(encoding()), 'metadata_encoding': draw(encoding()), 'lease': draw(st.booleans()),
            'frag': draw(st.sampled_from([None, 64, 200])), 'msg': draw(st.booleans()),
            'req_after_reconnect': draw(st.booleans()),
            # the client may have a lease publisher of its own; the SETUP lease flag only says whether it HONOURS leases
            # (... and that publisher may hand its first lease over from inside subscribe(), i.e. during connect())
            'client_lease_publisher': draw(st.sampled_from([False, False, True, 'eager']))}


def judge_client(case):
    P = timedelta(microseconds=case['P_us'])
    L = timedelta(microseconds=case['L_us'])
    nconn = len(case['scripts'])
    cfg = {'msg': case['msg'], 'frag': [case['frag'], None], 'rbuf': [1024, 1024], 'raw': 's',
           'ka': P.total_seconds(), 'life': L.total_seconds(), 'connect': [s for s in case['scripts']],
           'transports': nconn, 'connect_async': True, 'data_encoding': case['data_encoding'],
           'provider_delay': case.get('provider_delay'),
           'metadata_encoding': case['metadata_encoding']}
    if not any(cfg['connect']):
        cfg['connect'] = None
    if case['lease']:
        cfg['lease'] = {'queue': 0}
    if case.get('client_lease_publisher'):
        cfg['client_lease_publisher'] = case['client_lease_publisher']
    if case['payload'] is not None:
        d, m = A.payload_bytes(77, 0, 0, case['payload'])
        cfg['setup_payload'] = [d, m]
    inter = []
    ops = []
    by_tick = {}
    for r in case['reqs']:
        by_tick.setdefault(r['at'], []).append(r)
    for t in range(0, 6):
        for r in by_tick.get(t, []):
            spec = {'k': r['k'], 'side': 'c', 'req': [4, 2] if r['k'] != 'mp' else [0, 5]}
            if r['k'] == 'rr':
                spec['resp'] = {'mode': 'manual', 'p': [1, 0]}
            if r['k'] in ('st', 'ch'):
                spec['src'] = {'kind': 'manual', 'els': [], 'end': 'sep'}
                spec['sub'] = {'n0': 3, 'refill': 0}
            if r['k'] == 'ch':
                spec['rsrc'] = None
                spec['rsub'] = None
            inter.append(spec)
            ops.append(['start'])
        ops.append(['tick', 1])
    ops += [['adv', 3000], ['await_connect'], ['tick', 3], ['settle']]
    for i in range(1, nconn):
        ops += [['reconnect'], ['tick', 2]]
        if case['req_after_reconnect']:
            inter.append({'k': 'rr', 'side': 'c', 'req': [2, 0], 'resp': {'mode': 'manual', 'p': [1, 0]}})
            ops.append(['start'])
        ops += [['tick', 3], ['adv', 3000], ['tick', 3], ['settle']]
    prog = {'cfg': cfg, 'inter': inter, 'ops': ops, 'heal': False}
    tr = run_program(prog)
    out = []
    sends = tr.world.wire.get('c', [])
    early = False
    want_ka = round(case['P_us'] / 1000.0)
    want_life = round(case['L_us'] / 1000.0)
    for cx in range(nconn):
        frames = [e for e in sends if e.get('cx') == cx]
        if not frames:
            opened = any(e['ev'] == 'provider_yield' and e.get('cx') == cx for e in tr.world.log)
            if opened:
                out.append(viol('no_frame_on_connection', 'C16:nothing_sent', cx=cx))
            continue
        script = case['scripts'][cx]
        suspends = bool(script)
        first = frames[0]['f']['type']
        if first != 'SETUP':
            early = True
            sig = 'C16:setup_not_first:connect_suspends' if suspends else 'C16:setup_not_first'
            out.append(viol('setup_not_first', sig, cx=cx, first=first, connect=script,
                            before=[e['f']['type'] for e in frames[:4]]))
        setups = [e for e in frames if e['f']['type'] == 'SETUP']
        if len(setups) != 1:
            out.append(viol('setup_count', 'C16:setup_count:%d' % len(setups), cx=cx, n=len(setups)))
            continue
        w = setups[0].get('w')
        if w is None:
            out.append(viol('setup_not_decodable', 'C16:setup_undecodable', cx=cx, err=setups[0].get('wire_error')))
            continue
        want = {'major': 1, 'minor': 0, 'keepalive': want_ka, 'lifetime': want_life,
                'data_mime': expected_mime(case['data_encoding']), 'metadata_mime': expected_mime(case['metadata_encoding']),
                'lease': bool(case['lease']), 'resume': False, 'sid': 0}
        if case['payload'] is not None:
            want['data'] = cfg['setup_payload'][0]
            want['metadata'] = cfg['setup_payload'][1] or None
        else:
            want['data'] = b''
            want['metadata'] = None
        diff = sorted(k for k in want if w.get(k) != want[k])
        if diff:
            out.append(viol('setup_field_wrong', 'C16:setup_field:%s' % ','.join(diff), cx=cx,
                            got={k: (w.get(k) if not isinstance(w.get(k), bytes) or len(w.get(k)) < 40 else len(w.get(k))) for k in diff},
                            want={k: (want[k] if not isinstance(want[k], bytes) or len(want[k]) < 40 else len(want[k])) for k in diff}))
    for err in tr.loop_errors:
        out.append(viol('unhandled_exception', 'C16:loop_error:%s' % err.get('type'), **err))
    sub_second = (case['P_us'] % 1000000 != 0) or (case['L_us'] % 1000000 != 0)
    raced = any(case.get('provider_delay') or []) and bool(case['reqs']) or any(case['scripts']) and (bool(case['reqs']) or any(s and s[0] == 'time' and s[1] * 1e6 > case['P_us'] for s in case['scripts'] if s))
    return out, (sub_second or raced), ['part=client', 'connections=%d' % nconn, 'suspending_connect=%s' % any(case['scripts']),
                                         'requests_during_connect=%s' % bool(case['reqs']), 'sub_second_period=%s' % sub_second,
                                         'provider_suspends=%s' % any(case.get('provider_delay') or [])]


@st.composite
def server_cases(draw):
    mm = draw(st.one_of(st.sampled_from([b'application/json', b'text/plain', b'', b'x' * 127]), st.binary(max_size=100)))
    dm = draw(st.one_of(st.sampled_from([b'application/json', b'a/b', b'']), st.binary(max_size=100)))
    return {'client': False, 'resume': draw(st.sampled_from([False, False, False, True])), 'lease': draw(st.booleans()),
            'publisher': draw(st.booleans()), 'raises': draw(st.sampled_from([False, False, False, 'app', 'value_error', 'protocol_rejected', 'protocol_app',
                                                                'protocol_invalid', 'protocol_setup', 'stream_in_use'])),
            'metadata_mime': mm, 'data_mime': dm, 'data': draw(st.binary(max_size=50)),
            'metadata': draw(st.one_of(st.none(), st.binary(min_size=1, max_size=30))),
            'token': draw(st.binary(max_size=16)), 'then_resume': draw(st.booleans()), 'msg': draw(st.booleans()),
            'keepalive': draw(st.integers(1, 0x7FFFFFFF)), 'lifetime': draw(st.integers(1, 0x7FFFFFFF)),
            'probe': draw(st.booleans())}


def judge_server(case):
    cfg = {'msg': case['msg'], 'frag': [None, None], 'rbuf': [7, 7], 'raw': 'c', 'raw_setup': False}
    if case['publisher']:
        cfg['lease'] = {'queue': 0}
    if case['raises']:
        cfg['setup_raises'] = case['raises']
    v = {'type': 'SETUP', 'sid': 0, 'keepalive': case['keepalive'], 'lifetime': case['lifetime'], 'resume': case['resume'],
         'lease': case['lease'], 'metadata_mime': case['metadata_mime'], 'data_mime': case['data_mime'], 'data': case['data'],
         'metadata': case['metadata'], 'token': case['token']}
    ops = [['tick', 2], ['rawframe', v], ['tick', 4]]
    if case['then_resume']:
        ops += [['rawframe', {'type': 'RESUME', 'sid': 0, 'token': case['token'], 'last_server': 0, 'first_client': 0}], ['tick', 4]]
    prog = {'cfg': cfg, 'inter': [], 'ops': ops + [['settle']], 'heal': False, 'heal_lease': False}
    tr = run_program(prog)
    out = []
    errors = [f for f in tr.scn.raw.frames if f['type'] == 'ERROR']
    setups = [e for e in tr.world.log if e['ev'] == 'on_setup']
    unsupported = case['resume'] or (case['lease'] and not case['publisher'])
    want_errors = []
    if unsupported:
        want_errors.append(0x002)
        if setups:
            out.append(viol('on_setup_called_for_unsupported_setup', 'C16:on_setup_called:unsupported', resume=case['resume'],
                            lease=case['lease'], publisher=case['publisher']))
    else:
        if len(setups) != 1:
            out.append(viol('on_setup_count', 'C16:on_setup_count:%d' % len(setups), n=len(setups)))
        else:
            s = setups[0]
            got = (bytes(s['data_encoding']), bytes(s['metadata_encoding']), s['data'], s['metadata'])
            want = (case['data_mime'], case['metadata_mime'], case['data'], case['metadata'] or b'')
            if got != want:
                out.append(viol('on_setup_values_wrong', 'C16:on_setup_values', got=[len(x) for x in got], want=[len(x) for x in want]))
        if case['raises']:
            want_errors.append(0x003)
    if case['then_resume']:
        want_errors.append(0x004)
    got_errors = [(f['sid'], f.get('code')) for f in errors]
    if got_errors != [(0, c) for c in want_errors]:
        out.append(viol('setup_error_frames_wrong', 'C16:server_errors:%s' % '_'.join('%x' % c for c in want_errors),
                        got=got_errors, want=[(0, c) for c in want_errors]))
    for err in tr.loop_errors:
        out.append(viol('unhandled_exception', 'C16:loop_error:%s' % err.get('type'), **err))
    return out, bool(want_errors), ['part=server', 'unsupported=%s' % unsupported, 'on_setup_raises=%s' % case['raises'],
                                    'resume_frame=%s' % case['then_resume']]


info = {}


def prop(case):
    vs, nt, classes = judge_client(case) if case.get('client') else judge_server(case)
    info['nt'], info['classes'] = nt, classes
    return vs


def classify(case, vs):
    return info['nt'], info['classes'], None


REGRESSION = [
    # D13 trigger: connect() suspends, a request is issued meanwhile
    {'client': True, 'P_us': 500000, 'L_us': 1500000, 'scripts': [['ticks', 3]], 'reqs': [{'k': 'rr', 'at': 0}], 'payload': None,
     'data_encoding': {'enum': 'TEXT_PLAIN'}, 'metadata_encoding': b'x/y', 'lease': False, 'frag': None, 'msg': False,
     'req_after_reconnect': False},
    # D5: sub-second periods
    {'client': True, 'P_us': 500000, 'L_us': 1500250, 'scripts': [None], 'reqs': [], 'payload': [10, 4],
     'data_encoding': {'str': 'application/x-test'}, 'metadata_encoding': {'enum': 'MESSAGE_RSOCKET_COMPOSITE_METADATA'},
     'lease': True, 'frag': 64, 'msg': True, 'req_after_reconnect': False},
]


def shard(tier, seed, n, which):
    common.use_repo()
    stats = common.Stats()
    known = common.Known(PID)
    if which == 'regression':
        for c in REGRESSION:
            vs = prop(c)
            stats.case(c, True, ['regression'])
            for v in common.judge(stats, known, c, vs):
                stats.violations.append((v, c))
        return stats
    common.hyp_search(stats, known, client_cases() if which == 'client' else server_cases(), prop, n, seed, classify=classify)
    return stats


def run(tier, seed):
    t0 = time.time()
    total = 4800 if tier == 'quick' else 60000
    seeds = common.shard_seeds(seed, common.NPROC)
    jobs = [dict(tier=tier, seed=0, n=0, which='regression')]
    jobs += [dict(tier=tier, seed=s, n=total // len(seeds), which='server' if i % 3 == 2 else 'client') for i, s in enumerate(seeds)]
    stats = common.run_shards(__name__, 'shard', jobs)
    return common.finish(PID, tier, seed, LEVEL, RULE, stats, t0, ASSUMPTIONS)


def replay(path):
    common.use_repo()
    return common.report_replay(PID, path, prop(common.load_replay(path)))
