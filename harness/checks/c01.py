"""C01 End-to-end payload delivery and request/response correlation (Engine B, DESIGN 3/C01)."""
import time

from hypothesis import strategies as st

from harness import common, gen, monitors
from harness.programs import run_program

PID = 'C01'
LEVEL = 'exploration'
RULE = ('Hypothesis-generated SimNet programs: worlds over {byte-stream, message} framing x fragment size {none, '
        '64..1024} per endpoint x read buffer {1..65536}; 1-8 concurrent interactions of all five models started by '
        'either side; payload (data, metadata) lengths 0,1,2,.. around k*budget and up to 70000 bytes; stream/channel '
        'sources: StreamFromGenerator, StreamFromAsyncGenerator with awaits, manual publisher (one per tick / bursts), '
        'response futures resolved at once, late or by an operation; delivery pumped or manual with generated chunks; '
        'sender drain blocked for generated stretches; manual publishers may end by failing right after their last '
        'element (everything handed before the failure is owed to the consumer); no cancels or faults; heal phase '
        'grants credit and runs to quiescence; in a sixth of the programs the client honours leases that are granted in '
        'portions of 0-3 requests. Plus wide programs: 17-48 requests with multi-fragment payloads all queued '
        'before the sender runs, so that many partial frames are in flight at once. Plus reconnect histories of one client '
        'object in which the previous connection ended half way through a fragmented request or channel element. Plus last '
        'words: an endpoint issues 1-4 fire-and-forget / metadata-push requests and closes at once, so that the bytes and the '
        'end of the stream reach the peer together: every fire-and-forget written before close() reaches the handler once. Plus real endpoints joined through the '
        'repository\'s websocket transports (3 client-side x 4 server-side kinds, the websocket an in-memory pair) or through '
        'its QUIC transport (stand-in QuicConnection delivering the stream in chunks of generated sizes): 1-8 '
        'request-response / fire-and-forget / metadata-push / stream requests of 0-400 bytes, sequential or concurrent, '
        'fragmentation off or 64 / 80, answers computed from the requests. Oracle (reference model = the program): for every interaction the sequence of payloads '
        'observed at the peer callback equals the sequence handed in, byte for byte, exactly once, nothing foreign '
        '(every byte pattern encodes interaction, direction and index). Non-trivial = >= 2 interactions overlapping in '
        'time and (a payload of >= 2 fragments or a read buffer smaller than a frame); distinct = program hash.')
ASSUMPTIONS = [
    'virtual-time single-threaded asyncio loop',
    'real TransportTCP + asyncio.StreamReader / harness subclass of AbstractMessagingTransport; the websocket transports '
    'run with an in-memory stand-in for the websocket object; QUIC and HTTP/3 glue is outside the harness',
    'responder scripts are found through the stream id of the frame last yielded to the endpoint',
]


@st.composite
def programs(draw):
    frag = draw(gen.frag_pair())
    msg = draw(st.booleans())
    cfg = {'msg': msg, 'frag': frag, 'rbuf': draw(gen.rbufs()), 'none_empty': draw(st.booleans())}
    leased = draw(st.integers(0, 5)) == 0
    if leased:
        # a lease-honouring client: requests wait for leases that are granted in small portions (the heal phase grants the rest)
        cfg['lease'] = {'queue': 0}
    n = draw(st.integers(1, 8))
    big = draw(st.integers(0, 9)) == 0
    inter = []
    for i in range(n):
        side = draw(st.sampled_from(['c', 's']))
        fr_req = frag[0] if side == 'c' else frag[1]
        fr_resp = frag[1] if side == 'c' else frag[0]
        k = draw(st.sampled_from(['rr', 'rr', 'fnf', 'mp', 'st', 'st', 'ch', 'ch']))
        spec = {'k': k, 'side': side, 'req': draw(gen.lens(fr_req, 4, big=big))}
        if k == 'mp':
            spec['req'] = [0, max(1, spec['req'][0] or spec['req'][1])]
        if k == 'rr':
            spec['resp'] = {'mode': draw(st.sampled_from(['now', 'manual', 'late'])), 'delay': draw(st.integers(1, 30)),
                            'p': draw(gen.nonempty_lens(fr_resp, 5, big=big))}
        if k in ('st', 'ch'):
            # 'error': the producer fails after its elements; everything handed before the failure is still owed
            spec['src'] = draw(st.one_of(gen.manual_src(fr_resp, ends=('flag', 'sep', 'error'), max_frags=4),
                                         gen.manual_src(fr_resp, ends=('flag', 'sep', 'error'), max_frags=4),
                                         gen.lib_src(fr_resp), gen.lib_src(fr_resp)))
            spec['sub'] = draw(gen.sub_spec())
        if k == 'ch':
            spec['rsrc'] = draw(st.one_of(st.none(), gen.manual_src(fr_req, ends=('flag', 'sep', 'error'), max_frags=4),
                                          gen.lib_src(fr_req)))
            spec['rsub'] = draw(st.one_of(st.none(), gen.sub_spec(), gen.sub_spec(), gen.sub_spec()))
            if draw(st.integers(0, 5)) == 0:
                spec['src'] = None
        inter.append(spec)
    ops = []
    manual_regime = draw(st.booleans())
    if manual_regime:
        ops.append(['regime', 'manual'])
    op = st.one_of(
        st.just(('start',)), st.just(('start',)),
        st.tuples(st.just('emit'), st.integers(0, 7), st.sampled_from(['resp', 'req']), st.integers(1, 4)),
        st.tuples(st.just('end'), st.integers(0, 7), st.sampled_from(['resp', 'req'])),
        st.tuples(st.just('resolve'), st.integers(0, 7)),
        st.tuples(st.just('req'), st.integers(0, 7), st.sampled_from(['resp', 'req']), st.sampled_from([1, 2, 3, 10, gen.MAXN])),
        st.tuples(st.just('tick'), st.integers(1, 4)),
        st.tuples(st.just('adv'), st.integers(1, 40)),
        st.tuples(st.just('block'), st.sampled_from(['c', 's'])),
        st.tuples(st.just('unblock'), st.sampled_from(['c', 's'])),
        st.tuples(st.just('deliver'), st.sampled_from(['c', 's']), st.one_of(st.none(), st.integers(1, 200))),
        st.tuples(st.just('regime'), st.sampled_from(['pumped', 'manual'])),
    )
    if leased:
        op = st.one_of(op, op, st.tuples(st.just('lease'), st.sampled_from([0, 1, 1, 2, 3]), st.just(100000000)))
    # burst: everything a manual publisher has, and its ending, handed over in one go (no loop iteration in between)
    burst = st.tuples(st.integers(0, 7), st.sampled_from(['resp', 'resp', 'req'])).map(
        lambda t: [('emit', t[0], t[1], 5), ('end', t[0], t[1])])
    chunks = draw(st.lists(st.one_of(op.map(lambda o: [o]), op.map(lambda o: [o]), op.map(lambda o: [o]), burst),
                           min_size=2, max_size=30))
    body = [list(o) for ch in chunks for o in ch]
    ops.extend(body)
    ops.extend([['start']] * max(0, n - sum(1 for o in ops if o[0] == 'start')))
    manual = [(i, d) for i, sp in enumerate(inter) for d, key in (('resp', 'src'), ('req', 'rsrc'))
              if (sp.get(key) or {}).get('kind') == 'manual' and sp[key]['els']]
    if manual and draw(st.booleans()):
        # late bursts: the remaining elements of some manual publishers and their ending in one loop iteration
        ops.append(['tick', draw(st.integers(1, 4))])
        for i, d in draw(st.lists(st.sampled_from(manual), min_size=1, max_size=3, unique=True)):
            ops.extend([['emit', i, d, 5], ['end', i, d]])
    return {'cfg': cfg, 'inter': inter, 'ops': ops}


@st.composite
def wide_programs(draw):
    """Many interactions at once: 17-48 requests, each with a payload of several fragments, all queued before the sender
    runs (the sender rotates through every partly sent frame, so the receiver holds that many partial frames at a time)."""
    fs = draw(st.sampled_from([64, 64, 100]))
    cfg = {'msg': draw(st.booleans()), 'frag': [fs, fs], 'rbuf': draw(st.sampled_from([[1024, 1024], [64, 64], [65536, 65536]]))}
    n = draw(st.sampled_from([17, 20, 24, 33, 48]))
    side = draw(st.sampled_from(['c', 's', 'mixed']))
    inter = []
    for i in range(n):
        sd = side if side != 'mixed' else ('c' if i % 2 else 's')
        k = draw(st.sampled_from(['rr', 'rr', 'fnf', 'st']))
        spec = {'k': k, 'side': sd, 'req': [draw(st.sampled_from([150, 200, 300])), draw(st.sampled_from([0, 0, 30]))]}
        if k == 'rr':
            spec['resp'] = {'mode': 'now', 'p': [draw(st.sampled_from([3, 200])), 0]}
        if k == 'st':
            spec['src'] = {'kind': 'manual', 'els': [[180, 0], [5, 0]], 'end': 'sep'}
            spec['sub'] = {'n0': gen.MAXN, 'refill': 0}
        inter.append(spec)
    ops = [['tick', 3]] + [['start']] * n + [['tick', 4]]
    return {'cfg': cfg, 'inter': inter, 'ops': ops, 'wide': True}


info = {}


def overlap(tr):
    spans = {}
    for e in tr.world.log:
        u = e.get('uid')
        if u is None:
            continue
        s = spans.setdefault(u, [e['seq'], e['seq']])
        s[1] = e['seq']
    iv = sorted(spans.values())
    return any(a[1] > b[0] for a, b in zip(iv, iv[1:]))


def prop(program):
    tr = run_program(program)
    vs = monitors.mon_delivery(tr, PID)
    vs += monitors.mon_no_loop_errors(tr, PID)
    if not tr.quiet:
        info['quiet'] = False
    multi = any(e['f'].get('follows') for side in ('c', 's') for e in tr.world.wire.get(side, []))
    split = False
    if not program['cfg']['msg']:
        rb = program['cfg']['rbuf']
        for i, side in enumerate(('c', 's')):
            peer_rb = rb[1 - i]
            if any(e.get('wire_len', 0) > peer_rb for e in tr.world.wire.get(side, [])):
                split = True
    ov = overlap(tr)
    info['nt'] = ov and (multi or split)
    kinds = sorted(set(i['k'] for i in program['inter'][:len(tr.scn.started)]))
    burst_err = False
    last_hand = {}
    for e in tr.world.log:
        if e['ev'] == 'hand':
            last_hand[(e['uid'], e['dir'])] = e
        elif e['ev'] == 'hand_end' and e.get('how') == 'error':
            h = last_hand.get((e['uid'], e['dir']))
            if h is not None and e['seq'] - h['seq'] <= 2 and len(h['data']) + len(h['metadata']) > 64:
                burst_err = True
    info['classes'] = ['producer_error_right_after_large_element=%s' % burst_err,
                       'framing=' + ('message' if program['cfg']['msg'] else 'bytes'),
                       'interactions=%d' % len(tr.scn.started), 'multi_fragment=%s' % multi,
                       'read_split_inside_frame=%s' % split, 'overlap=%s' % ov, 'quiescent=%s' % tr.quiet,
                       'many_partial_frames_at_once=%s' % bool(program.get('wide')),
                       'requests_wait_for_leases=%s' % bool(program['cfg'].get('lease')),
                       'models=' + '+'.join(kinds)]
    return vs


def classify(case, vs):
    return info.get('nt', False), info.get('classes', ()), None


REGRESSION = [
    {'cfg': {'msg': False, 'frag': [64, 64], 'rbuf': [3, 7]},
     'inter': [{'k': 'st', 'side': 'c', 'req': [3, 0], 'src': {'kind': 'manual', 'els': [[150, 0], [150, 0], [150, 0]], 'end': 'sep'},
                'sub': {'n0': gen.MAXN}},
               {'k': 'rr', 'side': 's', 'req': [100, 70], 'resp': {'mode': 'late', 'delay': 5, 'p': [300, 0]}},
               {'k': 'ch', 'side': 'c', 'req': [0, 0], 'src': {'kind': 'gen', 'els': [[60, 0], [0, 60]], 'end': 'sep'},
                'sub': {'n0': 1, 'refill': 1}, 'rsrc': {'kind': 'agen', 'els': [[10, 10]] * 4, 'end': 'flag', 'awaits': 2},
                'rsub': {'n0': 2, 'refill': 2}}],
     'ops': [['start'], ['start'], ['start'], ['tick', 3], ['emit', 0, 'resp', 3], ['tick', 2]]},
]


def reconnect_prop(wrapped):
    """One client object over several connections (C17's reconnect histories with fragmentation on; the previous
    connection ended while the server was half way through a fragmented request or channel element): what the callers
    on the next connection receive is what their own requests produced, with nothing of the previous connection in it."""
    from harness.checks import c17
    case = wrapped['reconnect']
    prog, plan = c17.build(case)
    tr = run_program(prog)
    probe_uids = [u for p_ in plan for u in p_['probes']]
    skip = set(range(len(prog['inter']))) - set(probe_uids)
    vs = monitors.mon_delivery(tr, PID, require_complete=False, skip_uids=skip)
    info['nt'] = any(e.get('server_partial') for e in case['endings'])
    info['classes'] = ['part=reconnect', 'reconnects=%d' % len(case['endings'])]
    return vs


@st.composite
def last_words(draw):
    """One side says a few last things that need no answer (fire-and-forget, metadata-push) and closes at once, as a
    command-line client does: what it wrote before closing arrives together with the end of the stream (possibly while
    the receiver is still busy with an earlier request) and must still be delivered."""
    frag = draw(st.sampled_from([None, None, 64]))
    side = draw(st.sampled_from(['c', 's']))
    cfg = {'msg': draw(st.booleans()), 'frag': [frag, frag], 'rbuf': draw(gen.rbufs())}
    inter = []
    ops = [['tick', 3], ['settle']]
    if draw(st.booleans()):
        # something answered first, so the connection is in ordinary use
        inter.append({'k': 'rr', 'side': side, 'req': [4, 1], 'resp': {'mode': 'now', 'p': [3, 0]}})
        ops += [['start'], ['settle']]
    ops.append(['regime', 'manual'])
    n = draw(st.integers(1, 4))
    for _ in range(n):
        k = draw(st.sampled_from(['fnf', 'fnf', 'mp']))
        inter.append({'k': k, 'side': side, 'req': draw(gen.lens(frag, 3)) if k == 'fnf' else [0, draw(st.integers(1, 40))]})
        ops.append(['start'])
        if draw(st.booleans()):
            ops.append(['tick', 1])
    ops += [['tick', draw(st.integers(2, 4))], ['close', side]]
    chunks = draw(st.sampled_from(['all', 'all', 'split']))
    if chunks == 'split' and not cfg['msg']:
        ops.append(['deliver', side, draw(st.integers(1, 40))])
        ops.append(['tick', 1])
    ops += [['deliver', side, None], ['tick', 4], ['deliver', side, None], ['tick', 4], ['settle']]
    return {'last_words': True, 'cfg': cfg, 'inter': inter, 'ops': ops, 'heal': False}


def last_words_prop(program):
    tr = run_program(program)
    vs = []
    log = tr.world.log
    closed = next((e['seq'] for e in log if e['ev'] == 'close_call'), None)
    for uid in tr.scn.started:
        spec = tr.scn.st[uid]['spec']
        if spec['k'] != 'fnf':
            continue
        sent = next((e for e in log if e['ev'] == 'fnf_sent' and e.get('uid') == uid), None)
        if sent is None or sent.get('cancelled') or closed is None or sent['seq'] > closed:
            continue  # not handed to the transport before close() was called: nothing is owed
        d, m = monitors.A.payload_bytes(uid, monitors.A.TAG_REQ, 0, spec['req'])
        got = [e for e in log if e['ev'] == 'handler' and e.get('uid') == uid and e['side'] == monitors.OTHER[spec['side']]]
        if len(got) != 1 or (got[0]['data'], got[0]['metadata']) != (d, m):
            vs.append(common.viol('request_lost' if not got else 'request_corrupted',
                                  '%s:last_words:%s' % (PID, 'lost' if not got else ('duplicated' if len(got) > 1 else 'corrupted')),
                                  uid=uid, k='fnf', n=len(got), sent=[len(d), len(m)]))
    info['nt'] = sum(1 for i in program['inter'] if i['k'] in ('fnf', 'mp')) >= 2
    info['classes'] = ['part=last_words', 'closing_side=%s' % program['ops'][[o[0] for o in program['ops']].index('close')][1],
                       'framing=%s' % ('message' if program['cfg']['msg'] else 'bytes')]
    return vs


@st.composite
def glue_cases(draw):
    """Real endpoints over the repository's own websocket transports (the websocket is an in-memory pair, harness/glue_e2e.py)"""
    from harness import glue_e2e as G
    size = st.one_of(st.sampled_from([0, 1, 49, 55, 58, 64, 110, 300]), st.integers(0, 400))
    req = st.one_of(
        st.tuples(st.just('rr'), size, size),
        st.tuples(st.just('fnf'), size, size),
        st.tuples(st.just('mp'), st.integers(1, 60), st.just(0)),
        st.tuples(st.just('st'), st.integers(0, 6), st.integers(0, 60)),
    )
    case = {'glue': True, 'client': draw(st.sampled_from(G.CLIENT_GLUES)), 'server': draw(st.sampled_from(G.SERVER_GLUES)),
            'frag': draw(st.sampled_from([None, 64, 64, 80])), 'concurrent': draw(st.booleans()),
            'reqs': [list(r) for r in draw(st.lists(req, min_size=1, max_size=8))]}
    if draw(st.integers(0, 4)) == 0:
        # the QUIC transport (byte framing): both ends, stream data delivered in chunks of generated sizes
        case['client'] = case['server'] = 'aioquic'
        case['cuts'] = draw(st.one_of(st.none(), st.lists(st.integers(1, 40), min_size=1, max_size=5)))
    return case


_glue_stuck = []  # once a case has looped for its whole wall-clock allowance the following ones get a short one


def glue_prop(case, pid=None):
    PID = pid or globals()['PID']
    from harness import glue_e2e as G, vloop
    vs = []
    import signal
    from harness.programs import _case_alarm
    old_handler = signal.signal(signal.SIGALRM, _case_alarm)
    signal.alarm(20 if not _glue_stuck else 3)
    try:
        out = vloop.run_case(G.run, case)
    except common.CaseTimeout:
        _glue_stuck.append(1)
        return [common.viol('endpoint_does_not_terminate', '%s:glue:stuck' % PID, client=case['client'], server=case['server'],
                            frag=case['frag'], reqs=case['reqs'][:4])]
    except Exception as e:
        is_repo, sig = common.repo_exception_sig(e)
        if not is_repo:
            raise
        return [common.viol('endpoint_raised', '%s:glue:raised:%s' % (PID, type(e).__name__), client=case['client'],
                            server=case['server'], exc=repr(e)[:200])]
    finally:
        signal.alarm(0)
        signal.signal(signal.SIGALRM, old_handler)
    res, fnf, mp = G.expected(case)
    facts = dict(client=case['client'], server=case['server'], frag=case['frag'], concurrent=case['concurrent'])
    for i, (got, want) in enumerate(zip(out['results'], res)):
        if got != want:
            kind = 'raised' if got and got[0] == 'raised' else 'differs'
            vs.append(common.viol('response_corrupted' if kind == 'differs' else 'request_failed',
                                  '%s:glue:%s:%s' % (PID, want[0], kind), index=i, request=case['reqs'][i],
                                  got=(got[:3] if kind == 'raised' else [len(x) if isinstance(x, bytes) else x for x in got[:4]]), **facts))
            break
    if case['concurrent']:
        # requests issued together travel on different streams: a fragmented one may be overtaken by a small one, so only
        # "each exactly once" is owed, not the order across streams
        out['fnf'], fnf = sorted(out['fnf']), sorted(fnf)
        out['mp'], mp = sorted(out['mp']), sorted(mp)
    if out['fnf'] != fnf:
        vs.append(common.viol('request_lost' if len(out['fnf']) < len(fnf) else 'request_corrupted', '%s:glue:fnf' % PID,
                              n_got=len(out['fnf']), n_want=len(fnf), **facts))
    if out['mp'] != mp:
        vs.append(common.viol('request_lost' if len(out['mp']) < len(mp) else 'request_corrupted', '%s:glue:mp' % PID,
                              n_got=len(out['mp']), n_want=len(mp), **facts))
    for e in out['errors']:
        vs.append(common.viol('close_raised', '%s:glue:close_raised' % PID, what=e, **facts))
    for e in out['loop_errors']:
        vs.append(common.viol('unhandled_exception', '%s:glue:loop_error:%s' % (PID, e.get('type')), **facts))
    big = any((r[0] in ('rr', 'fnf') and max(r[1], r[2]) > 60) or (r[0] == 'st' and r[2] * 4 > 60) for r in case['reqs'])
    info['nt'] = len(case['reqs']) >= 2 and (case['concurrent'] or (big and case['frag']))
    info['classes'] = ['part=glue', 'client=' + case['client'], 'server=' + case['server'],
                       'fragmented=%s' % bool(big and case['frag'])]
    return vs


def shard(tier, seed, n, wide=False):
    common.use_repo()
    stats = common.Stats()
    known = common.Known(PID)
    if wide == 'glue':
        common.hyp_search(stats, known, glue_cases(), glue_prop, n, seed, classify=classify, shrink=True)
        return stats
    if wide == 'last_words':
        common.hyp_search(stats, known, last_words(), last_words_prop, n, seed, classify=classify, shrink=True)
        return stats
    if wide == 'reconnect':
        from harness.checks import c05
        common.hyp_search(stats, known, c05.reconnect_cases(), reconnect_prop, n, seed, classify=classify, shrink=False)
        return stats
    if n is None:
        for p in REGRESSION:
            vs = prop(p)
            stats.case(p, info.get('nt', False), ['regression'])
            for v in common.judge(stats, known, p, vs):
                stats.violations.append((v, p))
        return stats
    if wide:
        common.hyp_search(stats, known, wide_programs(), prop, n, seed, classify=classify, shrink=False)
        return stats
    common.hyp_search(stats, known, programs(), prop, n, seed, classify=classify, shrink=True)
    return stats


def run(tier, seed):
    t0 = time.time()
    total = 3200 if tier == 'quick' else 60000
    nsh = common.NPROC
    jobs = [dict(tier=tier, seed=0, n=None)] + [dict(tier=tier, seed=s, n=total // nsh) for s in common.shard_seeds(seed, nsh)]
    jobs += [dict(tier=tier, seed=s + 17, n=(32 if tier == 'quick' else 800) // 4, wide=True) for s in common.shard_seeds(seed, 4)]
    jobs += [dict(tier=tier, seed=s + 23, n=(160 if tier == 'quick' else 4000) // 4, wide='reconnect') for s in common.shard_seeds(seed, 4)]
    jobs += [dict(tier=tier, seed=s + 37, n=(320 if tier == 'quick' else 8000) // 4, wide='last_words') for s in common.shard_seeds(seed, 4)]
    jobs += [dict(tier=tier, seed=s + 41, n=(400 if tier == 'quick' else 12000) // 8, wide='glue') for s in common.shard_seeds(seed, 8)]
    stats = common.run_shards(__name__, 'shard', jobs)
    return common.finish(PID, tier, seed, LEVEL, RULE, stats, t0, ASSUMPTIONS)


def replay(path):
    common.use_repo()
    case = common.load_replay(path)
    if case.get('last_words'):
        return common.report_replay(PID, path, last_words_prop(case))
    if case.get('glue'):
        return common.report_replay(PID, path, glue_prop(case))
    return common.report_replay(PID, path, reconnect_prop(case) if 'reconnect' in case else prop(case))
