"""C10, peer-driven endings (Engine C): a harness-scripted raw peer opens payload fragment trains and ends the interaction
(or the real endpoint ends it) while a train is open. Exhaustive over sequences to a bound."""
from harness import common, monitors
from harness.common import viol
from harness.checks import c07
from harness.programs import run_program

PID = 'C10'


def alphabet(k, role):
    if role == 'requester':
        a = [('p', 'frag'), ('p', 'next'), ('p', 'next_complete'), ('p', 'error'), ('l', 'cancel', 'resp')]
        if k != 'rr':
            a += [('p', 'complete'), ('l', 'req', 'resp')]
        if k == 'ch':
            a += [('l', 'emit', 'req'), ('l', 'end', 'req')]
        return a
    # responder of a channel: the raw requester sends the inbound direction
    return [('p', 'frag'), ('p', 'next'), ('p', 'next_complete'), ('p', 'complete'), ('p', 'error'), ('p', 'request_n'),
            ('l', 'emit', 'resp'), ('l', 'end', 'resp'), ('l', 'req', 'req')]


def sequences(k, role, depth):
    """Protocol-legal for the raw peer: nothing after its own terminal frame; while one of its trains is open only
    frag / the closing fragment / ERROR; after the real endpoint cancelled, the peer may still finish its open train or
    stop (it never opens a new one)."""
    syms = alphabet(k, role)

    def rec(prefix, train, peer_done, cancelled):
        if prefix:
            yield list(prefix), train
        if len(prefix) >= depth:
            return
        for s in syms:
            if s[0] == 'p':
                kind = s[1]
                if peer_done:
                    continue
                if kind == 'request_n':
                    yield from rec(prefix + [s], train, peer_done, cancelled)
                    continue
                if cancelled and not train:
                    continue
                if kind == 'complete' and train:
                    continue  # a bare COMPLETE cannot close a train of an element
                if kind == 'frag':
                    if cancelled:
                        continue
                    yield from rec(prefix + [s], True, False, cancelled)
                elif kind == 'next':
                    yield from rec(prefix + [s], False, k == 'rr', cancelled)
                elif kind in ('next_complete', 'complete'):
                    yield from rec(prefix + [s], False, True, cancelled)
                elif kind == 'error':
                    yield from rec(prefix + [s], train, True, cancelled)
            else:
                if s[1] == 'cancel':
                    if cancelled:
                        continue
                    yield from rec(prefix + [s], train, peer_done, True)
                else:
                    yield from rec(prefix + [s], train, peer_done, cancelled)

    return rec([], False, False, False)


def terminated(k, role, seq):
    """Has the interaction ended for the real endpoint, by the rules of the protocol? (only the unambiguous cases)"""
    peer_err = any(s[0] == 'p' and s[1] == 'error' for s in seq)
    peer_complete = any(s[0] == 'p' and s[1] in ('next_complete', 'complete') for s in seq)
    local_cancel = any(s[0] == 'l' and s[1] == 'cancel' for s in seq)
    local_end = any(s[0] == 'l' and s[1] == 'end' for s in seq)
    if peer_err and (k != 'ch' or local_end):
        # (a channel whose local publisher is still open when the peer's ERROR arrives stays registered until that
        # publisher ends: the D12 half-close behaviour, judged by C08, see DESIGN 5)
        return 'peer_error'
    if role == 'requester' and k in ('rr', 'st'):
        if local_cancel:
            return 'local_cancel'
        if peer_complete or (k == 'rr' and any(s[0] == 'p' and s[1] == 'next' for s in seq)):
            return 'peer_complete'
        return None
    if peer_complete and local_end and not local_cancel:
        return 'both_directions_complete'
    return None


def abandoned_train(seq):
    """A train was open at the moment the interaction ended (the case finish_stream's cache removal exists for)."""
    train = False
    for s in seq:
        if s[0] == 'p' and s[1] == 'frag':
            train = True
        elif s[0] == 'p' and s[1] in ('next', 'next_complete'):
            train = False
        elif (s[0] == 'p' and s[1] == 'error') or (s[0] == 'l' and s[1] == 'cancel'):
            if train:
                return True
    return False


def prop(case):
    if case.get('reuse_after_end'):
        return reuse_prop(case)
    real, k, role, seq = case['real'], case['k'], case['role'], [tuple(x) for x in case['seq']]
    prog = c07.build(real, k, role, seq, msg=case.get('msg', False))
    if role == 'requester' and k == 'ch':
        # give the requester an outbound publisher it can complete
        prog['inter'][0]['rsrc'] = {'kind': 'manual', 'els': [[4, 0]] * 4, 'end': 'sep'}
    tr = run_program(prog)
    out = []
    fin = tr.final.get(real)
    if fin is None or 'frags' not in fin:
        raise common.HarnessError('no final snapshot for the real endpoint')
    sid = tr.scn.st[0]['sid']
    why = terminated(k, role, seq)
    facts = dict(real=real, k=k, role=role, seq=[list(s) for s in seq], sid=sid, ended_by=why)
    if why:
        if sid in fin['streams']:
            out.append(viol('stream_state_survives', 'C10:leak:%s:%s' % (k, role), **facts))
        if fin['frags']:
            out.append(viol('partial_frame_survives', 'C10:partial_frame', frags=fin['frags'], **facts))
    out += monitors.mon_no_loop_errors(tr, PID)
    return out


def shard(tier, seed, real, k, role, depth, part, parts):
    common.use_repo()
    stats = common.Stats()
    known = common.Known(PID)
    n = 0
    for idx, (seq, _) in enumerate(sequences(k, role, depth)):
        if idx % parts != part:
            continue
        case = {'real': real, 'k': k, 'role': role, 'seq': [list(s) for s in seq], 'msg': idx % 3 == 2, 'rawpeer': True}
        vs = prop(case)
        n += 1
        stats.evaluations += 1
        nt = abandoned_train(seq) and terminated(k, role, seq) is not None
        if nt:
            stats.nontrivial.add(hash((real, k, role, tuple(seq))))
            if len(stats.samples) < 1 and len(seq) == depth:
                stats.samples.append(case)
        for v in common.judge(stats, known, case, vs):
            if not any(v['sig'] == vv['sig'] for vv, _ in stats.violations):
                stats.violations.append((v, case))
    stats.classes['rawpeer:%s:%s:%s:depth<=%d' % (real, k, role, depth)] += n
    return stats


# ---- "the stream's id can be used again": a raw requester ends an interaction and opens a new one on the same id

def reuse_cases():
    for real in ('c', 's'):
        for k0 in ('rr', 'st'):
            for ending in ('peer_cancel', 'answered'):
                for again in ('rr', 'st', 'fnf'):
                    for same_read in (True, False):
                        for msg in (False, True):
                            yield {'reuse_after_end': True, 'real': real, 'k0': k0, 'ending': ending, 'again': again,
                                   'same_read': same_read, 'msg': msg, 'rawpeer': True}


def reuse_prop(case):
    real = case['real']
    raw = 's' if real == 'c' else 'c'
    k0 = case['k0']
    spec = {'k': k0, 'side': raw, 'req': [6, 2]}
    if k0 == 'rr':
        spec['resp'] = {'mode': 'manual', 'p': [9, 3]}
    else:
        spec['src'] = {'kind': 'manual', 'els': [[5, 0]], 'end': 'flag'}
        spec['sub'] = {'n0': 10, 'refill': 0}
    ops = [['tick', 3], ['start'], ['tick', 3]]
    if case['ending'] == 'answered':
        ops += [['resolve', 0]] if k0 == 'rr' else [['emit', 0, 'resp', 1]]
        ops += [['tick', 3]]
    if case['same_read']:
        ops += [['regime', 'manual']]
    if case['ending'] == 'peer_cancel':
        ops += [['rawf', 0, 'cancel', None]]
        if not case['same_read']:
            ops += [['tick', 2]]
    ops += [['rawreuse', 0, case['again']]]
    if case['same_read']:
        ops += [['deliver', raw, None], ['regime', 'pumped']]
    ops += [['tick', 5], ['settle']]
    prog = {'cfg': {'msg': case['msg'], 'frag': [None, None], 'rbuf': [1024, 1024], 'raw': raw}, 'inter': [spec], 'ops': ops,
            'heal': False}
    tr = run_program(prog)
    out = []
    sid = tr.scn.st[0]['sid']
    facts = {k: case[k] for k in ('real', 'k0', 'ending', 'again', 'same_read')}
    rejected = [f for f in tr.scn.raw.frames if f['sid'] == sid and f['type'] == 'ERROR' and f.get('code') == 0x202]
    if rejected:
        out.append(viol('id_of_ended_interaction_not_reusable', 'C10:id_not_reusable:%s:%s' % (k0, case['ending']), **facts))
    handled = [e for e in tr.world.log if e['ev'] == 'handler' and e['side'] == real and e.get('sid') == sid]
    if len(handled) != 2 and not rejected:
        out.append(viol('request_on_reused_id_not_dispatched', 'C10:reuse_not_dispatched:%s' % k0, n=len(handled), **facts))
    out += monitors.mon_no_loop_errors(tr, PID)
    return out


def reuse_shard(tier, seed):
    common.use_repo()
    stats = common.Stats()
    known = common.Known(PID)
    n = 0
    for case in reuse_cases():
        vs = reuse_prop(case)
        n += 1
        stats.evaluations += 1
        stats.nontrivial.add(hash(tuple(sorted(case.items()))))
        if len(stats.samples) < 1:
            stats.samples.append(case)
        for v in common.judge(stats, known, case, vs):
            if not any(v['sig'] == vv['sig'] for vv, _ in stats.violations):
                stats.violations.append((v, case))
    stats.classes['rawpeer:id_reuse_after_end'] += n
    return stats
