"""Recording application: handlers, publishers, subscribers and futures handed to the library log every signal
with the world's global sequence number. They obey reactive-streams etiquette (no request/cancel after a terminal
signal, a publisher never emits beyond the credit it was given, nothing after its own terminal signal), so every
frame judged by the monitors is attributable to the library."""
import asyncio
import hashlib

MAXN = 0x7FFFFFFF

TAG_REQ = 0  # request payload
TAG_RESP = 1  # elements / response flowing responder -> requester
TAG_REQEL = 2  # channel elements flowing requester -> responder


def pat(uid, tag, idx, n):
    """n deterministic bytes that identify (uid, tag, idx) at every offset (non-periodic)."""
    if n <= 0:
        return b''
    return hashlib.shake_128(b'%d/%d/%d' % (uid, tag, idx)).digest(n)


def payload_bytes(uid, tag, idx, lens):
    d, m = lens
    return pat(uid, tag, idx * 2, d), pat(uid, tag, idx * 2 + 1, m)


_lib = {}


def lib():
    if _lib:
        return _lib
    from rsocket.payload import Payload
    from rsocket.request_handler import BaseRequestHandler
    from reactivestreams.publisher import Publisher
    from reactivestreams.subscriber import Subscriber
    from reactivestreams.subscription import Subscription
    from rsocket.streams.stream_from_generator import StreamFromGenerator
    from rsocket.streams.stream_from_async_generator import StreamFromAsyncGenerator
    _lib.update(Payload=Payload, BaseRequestHandler=BaseRequestHandler, Publisher=Publisher, Subscriber=Subscriber,
                Subscription=Subscription, StreamFromGenerator=StreamFromGenerator,
                StreamFromAsyncGenerator=StreamFromAsyncGenerator)
    return _lib


def mk_payload(d, m, none_for_empty=False):
    P = lib()['Payload']
    if none_for_empty:
        return P(d if d else None, m if m else None)
    return P(d, m)


def pl(value):
    """(data, metadata) of a Payload as bytes, None -> b''."""
    d = getattr(value, 'data', None)
    m = getattr(value, 'metadata', None)
    return (bytes(d) if d else b''), (bytes(m) if m else b'')


class AppError(Exception):
    """The application-level error raised/sent by scripted sources. How it is constructed follows EXC_STYLE (set per
    program from cfg['exc_style']): applications raise exceptions with a message, with none, with a non-string argument
    (KeyError(7)), wrapping another exception, or with several arguments."""

    def __init__(self, message=''):
        style = EXC_STYLE[0]
        if style == 'none':
            super().__init__()
        elif style == 'int':
            super().__init__(7)
        elif style == 'nested':
            super().__init__(ValueError(message))
        elif style == 'tuple':
            super().__init__(message, 42)
        elif style == 'bytes':
            super().__init__(message.encode())
        else:
            super().__init__(message)


EXC_STYLE = ['str']
EXC_STYLES = ('str', 'none', 'int', 'nested', 'tuple', 'bytes')


def classes():
    if 'RecSubscriber' in _lib:
        return _lib
    L = lib()

    class RecSubscriber(L['Subscriber']):
        def __init__(self, world, side, uid, dirn, n0=MAXN, refill=0, raise_at=None, cancel_at=None, error_raises=False,
                     request_after_cancel=False):
            self.world, self.side, self.uid, self.dirn = world, side, uid, dirn
            self.error_raises = error_raises
            self.request_after_cancel = request_after_cancel
            self.n0 = n0
            self.refill = refill
            self.subscription = None
            self.terminal = False
            self.cancelled = False
            self.count = 0
            self.requested = 0
            self.raise_at = raise_at
            self.cancel_at = cancel_at

        def ev(self, kind, **kw):
            return self.world.ev(self.side, kind, uid=self.uid, dir=self.dirn, **kw)

        def on_subscribe(self, subscription):
            self.subscription = subscription
            self.ev('on_subscribe')

        def on_next(self, value, is_complete=False):
            if self.world.frozen:
                return
            d, m = pl(value)
            self.ev('on_next', data=d, metadata=m, complete=bool(is_complete))
            self.count += 1
            if is_complete:
                self.terminal = True
            elif self.cancel_at is not None and self.count == self.cancel_at:
                self.cancel()
            elif self.refill and self.count % self.refill == 0:
                self.request(self.refill)
            if self.raise_at is not None and self.count == self.raise_at:
                raise AppError('subscriber %d raises' % self.uid)

        def on_complete(self):
            if self.world.frozen:
                return
            self.ev('on_complete')
            self.terminal = True

        def on_error(self, exception):
            if self.world.frozen:
                return
            self.ev('on_error', exc=repr(exception), exc_type=type(exception).__name__)
            self.terminal = True
            if self.error_raises:
                raise AppError('subscriber %d raises from on_error' % self.uid)

        # application actions
        def request(self, n):
            if self.cancelled and self.request_after_cancel and not self.terminal and self.subscription is not None:
                # Reactive Streams 3.6: request() after cancel() is legal and must be a no-op (an operator chain that asks for
                # more while its downstream is going away does this)
                self.ev('sub_request_after_cancel', n=n)
                self.subscription.request(n)
                return True
            if self.terminal or self.cancelled or self.subscription is None:
                return False
            self.ev('sub_request', n=n)
            self.requested = min(MAXN, self.requested + n)
            self.subscription.request(n)
            return True

        def cancel(self):
            if self.terminal or self.cancelled or self.subscription is None:
                return False
            self.cancelled = True
            self.ev('sub_cancel')
            self.subscription.cancel()
            self.ev('sub_cancel_returned')
            return True

    class ManualPublisher(L['Publisher'], L['Subscription']):
        """Emits exactly when told to; never beyond credit; records request/cancel from the library."""

        def __init__(self, world, side, uid, dirn, tag, els, end, none_for_empty=False, cancel_raises=False,
                     idx0=0, raise_in=None):
            self.world, self.side, self.uid, self.dirn, self.tag = world, side, uid, dirn, tag
            self.els = list(els)
            self.end_mode = end  # 'flag' | 'sep' | 'error' | 'none'
            self.sub = None
            self.credit = 0
            self.next_idx = 0
            self.idx0 = idx0
            self.done = False
            self.cancelled = False
            self.none_for_empty = none_for_empty
            self.cancel_raises = cancel_raises
            self.raise_in = raise_in

        def ev(self, kind, **kw):
            return self.world.ev(self.side, kind, uid=self.uid, dir=self.dirn, **kw)

        def subscribe(self, subscriber):
            if self.raise_in == 'subscribe':
                self.ev('pub_raises', where='subscribe')
                raise AppError('publisher %d raises in subscribe' % self.uid)
            self.sub = subscriber
            self.ev('pub_subscribed')
            subscriber.on_subscribe(self)

        def request(self, n):
            if self.world.frozen:
                return
            self.ev('pub_request', n=n)
            if self.raise_in == 'request':
                self.ev('pub_raises', where='request')
                self.done = True
                raise AppError('publisher %d raises in request' % self.uid)
            self.credit = min(MAXN, self.credit + n)

        def cancel(self):
            if self.world.frozen:
                return
            self.ev('pub_cancel')
            self.cancelled = True
            if self.cancel_raises:
                raise AppError('publisher %d cancel raises' % self.uid)

        def remaining(self):
            return len(self.els) - self.next_idx

        def can_emit(self):
            return (self.sub is not None and not self.done and not self.cancelled and self.credit > 0
                    and self.next_idx < len(self.els))

        def emit(self, k=1):
            n = 0
            while n < k and self.can_emit():
                idx = self.next_idx
                d, m = payload_bytes(self.uid, self.tag, self.idx0 + idx, self.els[idx])
                last = idx == len(self.els) - 1
                complete = last and self.end_mode == 'flag'
                self.next_idx += 1
                if self.credit < MAXN:
                    self.credit -= 1
                self.ev('hand', idx=idx, data=d, metadata=m, complete=complete)
                if complete:
                    self.done = True
                self.sub.on_next(mk_payload(d, m, self.none_for_empty), complete)
                n += 1
            return n

        def can_end(self):
            return self.sub is not None and not self.done and not self.cancelled and self.end_mode != 'none'

        def fail(self):
            """on_error now, whatever the scripted ending was."""
            if self.sub is None or self.done or self.cancelled:
                return False
            self.done = True
            self.ev('hand_end', how='error')
            self.sub.on_error(AppError('source %d failed' % self.uid))
            return True

        def end(self):
            """Terminal signal now (elements not yet emitted are never emitted)."""
            if not self.can_end():
                return False
            self.done = True
            if self.end_mode == 'error':
                self.ev('hand_end', how='error')
                self.sub.on_error(AppError('source %d failed' % self.uid))
            else:
                self.ev('hand_end', how='complete')
                self.sub.on_complete()
            return True

    def gen_source(world, side, uid, dirn, tag, els, end, err_at=None, asynchronous=False, awaits=0,
                   none_for_empty=False, pace=0):
        """StreamFromGenerator / StreamFromAsyncGenerator over a recording generator."""

        runs = [0]

        def ev(kind, **kw):
            # run > 1: the library called the generator factory again (it does so when credit arrives after the
            # stream has completed); only the first run is the stream the application handed over
            return world.ev(side, kind, uid=uid, dir=dirn, run=runs[0], **kw)

        def items():
            for idx, lens in enumerate(els):
                d, m = payload_bytes(uid, tag, idx, lens)
                last = idx == len(els) - 1
                yield idx, d, m, (last and end == 'flag')

        if not asynchronous:
            def factory():
                runs[0] += 1
                ev('gen_start')
                try:
                    for idx, d, m, complete in items():
                        if err_at is not None and idx == err_at:
                            ev('hand_end', how='error')
                            raise AppError('generator %d failed' % uid)
                        ev('hand', idx=idx, data=d, metadata=m, complete=complete)
                        yield mk_payload(d, m, none_for_empty), complete
                    if isinstance(err_at, int) and err_at >= len(els):
                        ev('hand_end', how='error')
                        raise AppError('generator %d failed' % uid)
                    ev('gen_exhausted')
                finally:
                    ev('gen_finally')

            cls = L['StreamFromGenerator']
        else:
            async def factory():
                runs[0] += 1
                ev('gen_start')
                try:
                    for idx, d, m, complete in items():
                        for _ in range(awaits):
                            await asyncio.sleep(0)
                        if err_at is not None and idx == err_at:
                            ev('hand_end', how='error')
                            raise AppError('generator %d failed' % uid)
                        ev('hand', idx=idx, data=d, metadata=m, complete=complete)
                        yield mk_payload(d, m, none_for_empty), complete
                    if isinstance(err_at, int) and err_at >= len(els):
                        ev('hand_end', how='error')
                        raise AppError('generator %d failed' % uid)
                    ev('gen_exhausted')
                finally:
                    ev('gen_finally')

            cls = L['StreamFromAsyncGenerator']
        if err_at == 'factory':
            # the callable handed to the publisher fails before there is a generator at all (a lambda or partial that
            # decodes its argument, a function returning something that is not iterable)
            def factory():  # noqa: F811
                runs[0] += 1
                ev('gen_start')
                ev('hand_end', how='error')
                raise AppError('generator factory %d failed' % uid)
        kw = {}
        if pace:
            # a paced publisher: elements pulled from the generator wait in the publisher's queue, one handed to the
            # subscriber every `pace` (virtual) milliseconds
            from datetime import timedelta
            kw['delay_between_messages'] = timedelta(milliseconds=pace)
        return cls(factory, on_cancel=lambda: ev('src_on_cancel'), on_complete=lambda: ev('src_on_complete'), **kw)

    def rx_source(world, side, uid, dirn, tag, els, end, version=4, backpressure=False, err_at=None,
                  none_for_empty=False):
        """observable_to_publisher over a recording plain observable or a back-pressure observable factory."""
        if version == 4:
            import reactivex as rxm
            from reactivex.disposable import Disposable
            from rsocket.reactivex import back_pressure_publisher as bp
        else:
            import rx as rxm
            from rx.disposable import Disposable
            from rsocket.rx_support import back_pressure_publisher as bp

        def ev(kind, **kw):
            return world.ev(side, kind, uid=uid, dir=dirn, run=1, **kw)

        if not backpressure:
            def on_subscribe(observer, scheduler=None):
                ev('obs_subscribed')
                for idx, lens in enumerate(els):
                    if err_at is not None and idx == err_at:
                        ev('hand_end', how='error')
                        observer.on_error(AppError('observable %d failed' % uid))
                        return Disposable(lambda: ev('obs_disposed'))
                    d, m = payload_bytes(uid, tag, idx, lens)
                    ev('hand', idx=idx, data=d, metadata=m, complete=False)
                    observer.on_next(mk_payload(d, m, none_for_empty))
                if end == 'error' or (err_at is not None and err_at >= len(els)):
                    ev('hand_end', how='error')
                    observer.on_error(AppError('observable %d failed' % uid))
                elif end != 'none':
                    ev('hand_end', how='complete')
                    observer.on_completed()
                return Disposable(lambda: ev('obs_disposed'))

            return bp.observable_to_publisher(rxm.create(on_subscribe))

        async def agen():
            ev('gen_start')
            try:
                for idx, lens in enumerate(els):
                    if err_at is not None and idx == err_at:
                        ev('hand_end', how='error')
                        raise AppError('generator %d failed' % uid)
                    d, m = payload_bytes(uid, tag, idx, lens)
                    ev('hand', idx=idx, data=d, metadata=m, complete=False)
                    yield mk_payload(d, m, none_for_empty)
                if end == 'error':
                    ev('hand_end', how='error')
                    raise AppError('generator %d failed' % uid)
                ev('hand_end', how='complete')
            finally:
                ev('gen_finally')

        def factory(feedback):
            feedback.subscribe(on_next=lambda n: ev('feedback', n=n), on_completed=lambda: ev('feedback_completed'))
            return bp.observable_from_async_generator(agen(), feedback)

        return bp.observable_to_publisher(bp.from_observable_with_backpressure(factory))

    _lib.update(RecSubscriber=RecSubscriber, ManualPublisher=ManualPublisher, gen_source=gen_source,
                rx_source=rx_source)
    return _lib
