"""Frame values (refcodec dicts) <-> repository Frame objects of a given backend variant, and Hypothesis strategies
for frame values restricted to what the wire format of each type carries."""
from hypothesis import strategies as st

from harness import refcodec

M31 = 0x7FFFFFFF
M63 = 0x7FFFFFFFFFFFFFFF

CLASS_OF = {
    'SETUP': 'SetupFrame', 'LEASE': 'LeaseFrame', 'KEEPALIVE': 'KeepAliveFrame',
    'REQUEST_RESPONSE': 'RequestResponseFrame', 'REQUEST_FNF': 'RequestFireAndForgetFrame',
    'REQUEST_STREAM': 'RequestStreamFrame', 'REQUEST_CHANNEL': 'RequestChannelFrame', 'REQUEST_N': 'RequestNFrame',
    'CANCEL': 'CancelFrame', 'PAYLOAD': 'PayloadFrame', 'ERROR': 'ErrorFrame', 'METADATA_PUSH': 'MetadataPushFrame',
    'RESUME': 'ResumeFrame', 'RESUME_OK': 'ResumeOKFrame',
}


def to_repo(variant, v):
    F = variant.mod('rsocket.frame')
    t = v['type']
    fr = getattr(F, CLASS_OF[t])()
    fr.stream_id = v.get('sid', 0)
    fr.flags_ignore = bool(v.get('ignore'))
    if v.get('metadata') is not None:
        fr.metadata = v['metadata']
    if t not in ('REQUEST_N', 'CANCEL', 'RESUME', 'RESUME_OK', 'LEASE', 'METADATA_PUSH'):
        fr.data = v.get('data', b'')
    if t == 'SETUP':
        fr.flags_lease = bool(v.get('lease'))
        fr.flags_resume = bool(v.get('resume'))
        fr.major_version = v.get('major', 1)
        fr.minor_version = v.get('minor', 0)
        fr.keep_alive_milliseconds = v['keepalive']
        fr.max_lifetime_milliseconds = v['lifetime']
        if v.get('resume'):
            fr.token_length = len(v.get('token', b''))
            fr.resume_identification_token = v.get('token', b'')
        fr.metadata_encoding = v['metadata_mime']
        fr.data_encoding = v['data_mime']
    elif t == 'LEASE':
        fr.time_to_live = v['ttl']
        fr.number_of_requests = v['count']
    elif t == 'KEEPALIVE':
        fr.flags_respond = bool(v.get('respond'))
        fr.last_received_position = v.get('position', 0)
    elif t in ('REQUEST_RESPONSE', 'REQUEST_FNF'):
        fr.flags_follows = bool(v.get('follows'))
    elif t == 'REQUEST_STREAM':
        fr.flags_follows = bool(v.get('follows'))
        fr.initial_request_n = v['n']
    elif t == 'REQUEST_CHANNEL':
        fr.flags_follows = bool(v.get('follows'))
        fr.flags_complete = bool(v.get('complete'))
        fr.initial_request_n = v['n']
    elif t == 'REQUEST_N':
        fr.request_n = v['n']
    elif t == 'PAYLOAD':
        fr.flags_follows = bool(v.get('follows'))
        fr.flags_complete = bool(v.get('complete'))
        fr.flags_next = bool(v.get('next'))
    elif t == 'ERROR':
        fr.error_code = variant.mod('rsocket.error_codes').ErrorCode(v['code'])
    elif t == 'RESUME':
        fr.major_version = v.get('major', 1)
        fr.minor_version = v.get('minor', 0)
        fr.token_length = len(v.get('token', b''))
        fr.resume_identification_token = v.get('token', b'')
        fr.last_server_position = v['last_server']
        fr.first_client_position = v['first_client']
    elif t == 'RESUME_OK':
        fr.last_received_client_position = v['position']
    return fr


def _b(x):
    return bytes(x) if x else b''


def from_repo(fr):
    """Normalised value of a parsed repo frame (empty metadata == absent)."""
    t = fr.frame_type.name
    v = {'type': t, 'sid': fr.stream_id, 'ignore': bool(fr.flags_ignore)}
    md = _b(getattr(fr, 'metadata', b''))
    v['metadata'] = md if md else None
    v['data'] = _b(getattr(fr, 'data', b''))
    if t == 'SETUP':
        v.update(lease=bool(fr.flags_lease), resume=bool(fr.flags_resume), major=fr.major_version,
                 minor=fr.minor_version, keepalive=fr.keep_alive_milliseconds, lifetime=fr.max_lifetime_milliseconds,
                 metadata_mime=_b(fr.metadata_encoding), data_mime=_b(fr.data_encoding))
        if fr.flags_resume:
            v['token'] = _b(fr.resume_identification_token)
            v['token_length'] = fr.token_length
    elif t == 'LEASE':
        v.update(ttl=fr.time_to_live, count=fr.number_of_requests)
    elif t == 'KEEPALIVE':
        v.update(respond=bool(fr.flags_respond), position=fr.last_received_position)
    elif t in ('REQUEST_RESPONSE', 'REQUEST_FNF'):
        v.update(follows=bool(fr.flags_follows))
    elif t == 'REQUEST_STREAM':
        v.update(follows=bool(fr.flags_follows), n=fr.initial_request_n)
    elif t == 'REQUEST_CHANNEL':
        v.update(follows=bool(fr.flags_follows), complete=bool(fr.flags_complete), n=fr.initial_request_n)
    elif t == 'REQUEST_N':
        v.update(n=fr.request_n)
    elif t == 'PAYLOAD':
        v.update(follows=bool(fr.flags_follows), complete=bool(fr.flags_complete), next=bool(fr.flags_next))
    elif t == 'ERROR':
        v.update(code=int(fr.error_code))
    elif t == 'RESUME':
        v.update(major=fr.major_version, minor=fr.minor_version, token=_b(fr.resume_identification_token),
                 last_server=fr.last_server_position, first_client=fr.first_client_position)
    elif t == 'RESUME_OK':
        v.update(position=fr.last_received_client_position)
    return v


def normalise(v):
    """What the wire can represent of a value: empty metadata == absent; a payload with content carries next;
    fields that a type does not carry are dropped."""
    t = v['type']
    w = {'type': t, 'sid': v.get('sid', 0), 'ignore': bool(v.get('ignore'))}
    md = v.get('metadata')
    w['metadata'] = md if md else None
    w['data'] = v.get('data') or b''
    if t in ('REQUEST_N', 'CANCEL', 'RESUME', 'RESUME_OK'):
        w['metadata'] = None
        w['data'] = b''
    if t in ('LEASE', 'METADATA_PUSH'):
        w['data'] = b''
    if t in ('ERROR', 'KEEPALIVE'):
        w['metadata'] = None
    for k in ('lease', 'resume', 'respond', 'follows', 'complete', 'next'):
        if k in v:
            w[k] = bool(v[k])
    for k in ('major', 'minor', 'keepalive', 'lifetime', 'metadata_mime', 'data_mime', 'ttl', 'count', 'position',
              'n', 'code', 'last_server', 'first_client'):
        if k in v:
            w[k] = v[k]
    if t == 'SETUP':
        w.setdefault('major', 1)
        w.setdefault('minor', 0)
        w.setdefault('lease', False)
        w.setdefault('resume', False)
        if w['resume']:
            w['token'] = v.get('token', b'')
            w['token_length'] = len(w['token'])
    if t == 'RESUME':
        w.setdefault('major', 1)
        w.setdefault('minor', 0)
        w['token'] = v.get('token', b'')
    if t == 'KEEPALIVE':
        w.setdefault('respond', False)
        w.setdefault('position', 0)
    if t == 'PAYLOAD':
        for k in ('follows', 'complete', 'next'):
            w.setdefault(k, False)
        if w['data'] or w['metadata']:
            w['next'] = True
    if t in ('REQUEST_RESPONSE', 'REQUEST_FNF', 'REQUEST_STREAM', 'REQUEST_CHANNEL'):
        w.setdefault('follows', False)
    if t == 'REQUEST_CHANNEL':
        w.setdefault('complete', False)
    return w


def ref_view(v):
    """normalise(refcodec.decode(bytes)) comparable with from_repo()."""
    w = normalise(v)
    if w['type'] == 'SETUP' and w.get('resume'):
        w['token_length'] = len(w.get('token', b''))
    return w


# ------------------------------------------------------------------------------------------------ strategies

def sids(zero_ok=True):
    base = [1, 2, 3, 0x7FFFFFFF, 0x7FFFFFFE, 0x10000, 255, 256]
    if zero_ok:
        base.append(0)
    return st.one_of(st.sampled_from(base), st.integers(0 if zero_ok else 1, M31))


def blob(max_size=300, big=True):
    opts = [st.just(b''), st.binary(min_size=1, max_size=16), st.binary(min_size=0, max_size=max_size)]
    if big:
        opts.append(st.integers(0, 3).map(lambda i: bytes([i]) * [4096, 65535, 65536, 70000][i]))
    return st.one_of(*opts)


def meta(max_size=300, big=True):
    return st.one_of(st.none(), blob(max_size, big).filter(lambda b: len(b) > 0))


def u31():
    return st.one_of(st.sampled_from([0, 1, 2, M31, M31 - 1, 0x10000, 500, 1000]), st.integers(0, M31))


def u32n():
    """request-n values: 32-bit field (the protocol uses 31 bits; the codec must round-trip the field)."""
    return st.one_of(st.sampled_from([0, 1, 2, M31, M31 - 1]), st.integers(0, M31))


def u63():
    return st.one_of(st.sampled_from([0, 1, M63, M63 - 1, 1 << 32, (1 << 32) - 1]), st.integers(0, M63))


def mime():
    return st.one_of(st.sampled_from([b'', b'a', b'application/json', b'text/plain', b'x' * 127,
                                      b'message/x.rsocket.composite-metadata.v0']),
                     st.binary(min_size=0, max_size=127))


ERROR_CODE_VALUES = [0x001, 0x002, 0x003, 0x004, 0x101, 0x102, 0x201, 0x202, 0x203, 0x204, 0xFFFFFFFF]


def frame_value(t):
    base = {'type': st.just(t), 'ignore': st.booleans()}
    if t == 'SETUP':
        return st.fixed_dictionaries(dict(
            base, sid=sids(), lease=st.booleans(), resume=st.booleans(), major=st.integers(0, 0xFFFF),
            minor=st.integers(0, 0xFFFF), keepalive=u31(), lifetime=u31(), token=st.binary(max_size=40),
            metadata_mime=mime(), data_mime=mime(), metadata=meta(), data=blob()))
    if t == 'LEASE':
        return st.fixed_dictionaries(dict(base, sid=sids(), ttl=u31(), count=u31(), metadata=meta()))
    if t == 'KEEPALIVE':
        return st.fixed_dictionaries(dict(base, sid=sids(), respond=st.booleans(), position=u63(), data=blob()))
    if t in ('REQUEST_RESPONSE', 'REQUEST_FNF'):
        return st.fixed_dictionaries(dict(base, sid=sids(), follows=st.booleans(), metadata=meta(), data=blob()))
    if t == 'REQUEST_STREAM':
        return st.fixed_dictionaries(dict(base, sid=sids(), follows=st.booleans(), n=u32n(), metadata=meta(),
                                          data=blob()))
    if t == 'REQUEST_CHANNEL':
        return st.fixed_dictionaries(dict(base, sid=sids(), follows=st.booleans(), complete=st.booleans(), n=u32n(),
                                          metadata=meta(), data=blob()))
    if t == 'REQUEST_N':
        return st.fixed_dictionaries(dict(base, sid=sids(), n=u32n()))
    if t == 'CANCEL':
        return st.fixed_dictionaries(dict(base, sid=sids()))
    if t == 'PAYLOAD':
        return st.fixed_dictionaries(dict(base, sid=sids(), follows=st.booleans(), complete=st.booleans(),
                                          next=st.booleans(), metadata=meta(), data=blob()))
    if t == 'ERROR':
        return st.fixed_dictionaries(dict(base, sid=sids(), code=st.sampled_from(ERROR_CODE_VALUES), data=blob()))
    if t == 'METADATA_PUSH':
        return st.fixed_dictionaries(dict(base, sid=st.just(0), metadata=meta()))
    if t == 'RESUME':
        return st.fixed_dictionaries(dict(base, sid=sids(), major=st.integers(0, 0xFFFF), minor=st.integers(0, 0xFFFF),
                                          token=st.binary(max_size=40), last_server=u63(), first_client=u63()))
    if t == 'RESUME_OK':
        return st.fixed_dictionaries(dict(base, sid=sids(), position=u63()))
    raise ValueError(t)


def any_frame_value(types=None):
    types = types or list(refcodec.TYPES)
    return st.sampled_from(types).flatmap(frame_value)
