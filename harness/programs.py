"""Interpreter for SimNet programs: (code, program) -> Trace. Pure: no RNG, no wall clock.

program = {
  'cfg':  {'msg': bool, 'frag': [client|None, server|None], 'rbuf': [c, s], 'ka': seconds, 'life': seconds,
           'lease': {...}|None, 'idmask': int|None, 'none_empty': bool},
  'inter': [interaction spec, ...]      (started by 'start' ops, in order)
  'ops':  [[op, args...], ...]
  'heal': bool (default True)
}
interaction spec:
  {'k': 'rr'|'fnf'|'mp'|'st'|'ch', 'side': 'c'|'s', 'req': [dlen, mlen],
   'resp': {'mode': 'now'|'manual'|'fail'|'raise'|'late', 'delay': ticks, 'p': [d, m]}          (rr)
   'src':  {'kind': 'manual'|'gen'|'agen', 'els': [[d, m], ...], 'end': 'flag'|'sep'|'error'|'none',
            'err_at': k|None, 'awaits': k} | None                                                (st, ch responder)
   'sub':  {'n0': n, 'refill': k}                                                               (st, ch requester)
   'rsrc': like src | None   (channel: requester's publisher)
   'rsub': like sub | None   (channel: responder's subscriber) }
"""
import asyncio
from datetime import timedelta

from harness import app as A
from harness import simnet
from harness.common import HarnessError
from harness.vloop import run_case, patch_datetime

MAXN = 0x7FFFFFFF
OTHER = {'c': 's', 's': 'c'}


class Trace:
    pass


class ManualLeasePublisher:
    """Lease publisher for the responder: publishes DefinedLease(count, ttl) when an operation says so."""

    def __init__(self, world):
        self.world = world
        self.subscriber = None
        self.published = []

    def subscribe(self, subscriber):
        self.subscriber = subscriber
        self.world.ev('s', 'lease_subscribed')

    def publish(self, count, ttl_ms):
        from rsocket.lease import DefinedLease
        if self.subscriber is None:
            return False
        self.world.ev('s', 'lease_published', count=count, ttl_ms=ttl_ms)
        self.published.append((count, ttl_ms))
        self.subscriber.on_next(DefinedLease(maximum_request_count=count, maximum_lease_time=timedelta(milliseconds=ttl_ms)))
        return True


class Scenario:
    def __init__(self, world, program):
        self.world = world
        self.program = program
        self.cfg = program.get('cfg', {})
        self.inter = program.get('inter', [])
        self.started = []  # uids in start order
        self.st = {}  # uid -> state dict
        self.sock = {}
        self.handlers = {}
        self.none_empty = bool(self.cfg.get('none_empty'))

    # ---- lookup used by handlers
    def lookup(self, side):
        sid = self.world.last_recv_sid.get(side)
        q = self.world.sid_queue.get((OTHER[side], sid))
        # ids are reused after wrap-around and frames may be delivered late: the k-th request received on an id belongs
        # to the k-th interaction issued with it (per-stream wire order is FIFO)
        uid = q.popleft() if q else None
        return sid, uid


def make_handler_class(scn, side):
    L = A.classes()
    world = scn.world
    Base = L['BaseRequestHandler']

    class RecHandler(Base):
        def __init__(self, *a, **kw):
            super().__init__()
            scn.handlers[side] = self

        def _ev(self, kind, **kw):
            return world.ev(side, kind, **kw)

        async def on_setup(self, data_encoding, metadata_encoding, payload):
            d, m = A.pl(payload)
            self._ev('on_setup', data_encoding=data_encoding, metadata_encoding=metadata_encoding, data=d, metadata=m)
            if scn.cfg.get('setup_raises'):
                raise A.AppError('setup refused')

        async def on_close(self, rsocket, exception=None):
            self._ev('on_close', exc=repr(exception) if exception else None)

        async def on_error(self, error_code, payload):
            d, m = A.pl(payload)
            self._ev('handler_on_error', code=int(error_code), data=d)

        async def on_connection_error(self, rsocket, exception):
            self._ev('on_connection_error', exc=repr(exception))

        async def on_keepalive_timeout(self, time_since_last_keepalive, rsocket):
            self._ev('on_keepalive_timeout', since=time_since_last_keepalive.total_seconds())
            hook = scn.cfg.get('on_ka_timeout')
            if hook == 'reconnect':
                await rsocket.reconnect()

        async def on_metadata_push(self, payload):
            d, m = A.pl(payload)
            self._ev('handler', k='mp', uid=None, sid=0, data=d, metadata=m)

        async def request_fire_and_forget(self, payload):
            sid, uid = scn.lookup(side)
            d, m = A.pl(payload)
            self._ev('handler', k='fnf', uid=uid, sid=sid, data=d, metadata=m)
            st = scn.st.get(uid)
            if st is not None and st['spec'].get('handler_raises'):
                raise A.AppError('fnf handler %s raises' % uid)

        async def request_response(self, payload):
            sid, uid = scn.lookup(side)
            d, m = A.pl(payload)
            self._ev('handler', k='rr', uid=uid, sid=sid, data=d, metadata=m)
            st = scn.st.get(uid)
            if st is None or st['spec']['k'] != 'rr':
                raise A.AppError('no script for stream %s' % sid)
            resp = st['spec'].get('resp', {'mode': 'now', 'p': [1, 0]})
            mode = resp.get('mode', 'now')
            if mode == 'raise':
                raise A.AppError('handler %d raises' % uid)
            fut = world.loop.create_future()
            st['hfut'] = fut
            fut.add_done_callback(
                lambda f: world.ev(side, 'hfut_done', uid=uid, cancelled=f.cancelled()))
            if mode == 'now':
                scn.resolve(uid)
            elif mode == 'fail':
                world.ev(side, 'hfut_fail', uid=uid)
                fut.set_exception(A.AppError('response %d failed' % uid))
            elif mode == 'late':
                world.loop.call_later(resp.get('delay', 1) * 0.001, scn.resolve, uid)
            return fut

        async def request_stream(self, payload):
            sid, uid = scn.lookup(side)
            d, m = A.pl(payload)
            self._ev('handler', k='st', uid=uid, sid=sid, data=d, metadata=m)
            st = scn.st.get(uid)
            if st is None or st['spec']['k'] != 'st':
                raise A.AppError('no script for stream %s' % sid)
            if st['spec'].get('handler_raises'):
                raise A.AppError('handler %d raises' % uid)
            return scn.make_source(uid, side, 'resp', st['spec'].get('src'))

        async def request_channel(self, payload):
            sid, uid = scn.lookup(side)
            d, m = A.pl(payload)
            self._ev('handler', k='ch', uid=uid, sid=sid, data=d, metadata=m)
            st = scn.st.get(uid)
            if st is None or st['spec']['k'] != 'ch':
                raise A.AppError('no script for stream %s' % sid)
            if st['spec'].get('handler_raises'):
                raise A.AppError('handler %d raises' % uid)
            src = st['spec'].get('src')
            pub = scn.make_source(uid, side, 'resp', src) if src is not None else None
            rsub = st['spec'].get('rsub')
            sub = None
            if rsub is not None:
                sub = scn.make_subscriber(uid, side, 'req', rsub, request_on_subscribe=True)
            return pub, sub

    return RecHandler


def _scn_methods():
    L = A.classes()

    def make_source(self, uid, side, dirn, src):
        st = self.st[uid]
        tag = A.TAG_RESP if dirn == 'resp' else A.TAG_REQEL
        kind = src.get('kind', 'manual')
        els = src.get('els', [])
        end = src.get('end', 'flag')
        if kind == 'manual':
            p = L['ManualPublisher'](self.world, side, uid, dirn, tag, els, end, none_for_empty=self.none_empty,
                                     cancel_raises=bool(src.get('cancel_raises')))
            st['pub'][dirn] = p
            return p
        if kind in ('gen', 'agen'):
            p = L['gen_source'](self.world, side, uid, dirn, tag, els, end, err_at=src.get('err_at'),
                                asynchronous=(kind == 'agen'), awaits=src.get('awaits', 0),
                                none_for_empty=self.none_empty)
            st['libpub'][dirn] = p
            return p
        if kind in ('rx3', 'rx4', 'rx3bp', 'rx4bp'):
            p = L['rx_source'](self.world, side, uid, dirn, tag, els, 'error' if end == 'error' else 'sep',
                               version=int(kind[2]), backpressure=kind.endswith('bp'), err_at=src.get('err_at'),
                               none_for_empty=self.none_empty)
            st['libpub'][dirn] = p
            return p
        raise HarnessError('unknown source kind %r' % kind)

    def make_subscriber(self, uid, side, dirn, spec, request_on_subscribe=False):
        st = self.st[uid]
        n0 = spec.get('n0', MAXN)
        sub = L['RecSubscriber'](self.world, side, uid, dirn, n0=n0, refill=spec.get('refill', 0),
                                 raise_at=spec.get('raise_at'))
        st['sub'][dirn] = sub
        if request_on_subscribe:
            orig = sub.on_subscribe

            def on_subscribe(subscription, _orig=orig, _sub=sub):
                _orig(subscription)
                if _sub.n0 > 0:
                    _sub.request(_sub.n0)

            sub.on_subscribe = on_subscribe
        return sub

    def resolve(self, uid):
        st = self.st.get(uid)
        if st is None:
            return False
        fut = st.get('hfut')
        if fut is None or fut.done():
            return False
        resp = st['spec'].get('resp', {})
        d, m = A.payload_bytes(uid, A.TAG_RESP, 0, resp.get('p', [1, 0]))
        side = OTHER[st['spec']['side']]
        self.world.ev(side, 'hand', uid=uid, dir='resp', idx=0, data=d, metadata=m, complete=True)
        fut.set_result(A.mk_payload(d, m, self.none_empty))
        return True

    def start(self, i):
        if i >= len(self.inter):
            return False
        spec = self.inter[i]
        uid = i
        side = spec['side']
        sock = self.sock.get(side)
        if sock is None:
            return False
        world = self.world
        st = {'spec': spec, 'uid': uid, 'pub': {}, 'libpub': {}, 'sub': {}, 'hfut': None, 'fut': None, 'sid': None}
        self.st[uid] = st
        self.started.append(uid)
        d, m = A.payload_bytes(uid, A.TAG_REQ, 0, spec.get('req', [1, 0]))
        payload = A.mk_payload(d, m, self.none_empty)
        k = spec['k']
        sc = getattr(sock, '_stream_control', None)
        if sc is None or not hasattr(sc, '_current_stream_id'):
            raise HarnessError('cannot observe allocated stream id (_stream_control._current_stream_id)')
        ev = world.ev(side, 'issue', uid=uid, k=k, data=d, metadata=m)
        try:
            if k == 'rr':
                fut = sock.request_response(payload)
                st['sid'] = sc._current_stream_id
                world.bind(side, st['sid'], uid)
                st['fut'] = fut
                fut.add_done_callback(lambda f: self._rr_done(uid, side, f))
            elif k == 'fnf':
                fut = sock.fire_and_forget(payload)
                st['sid'] = sc._current_stream_id
                world.bind(side, st['sid'], uid)
                st['fut'] = fut
                fut.add_done_callback(lambda f: world.ev(side, 'fnf_sent', uid=uid, cancelled=f.cancelled()))
            elif k == 'mp':
                fut = sock.metadata_push(m)
                st['sid'] = 0
                st['fut'] = fut
            elif k == 'st':
                req = sock.request_stream(payload)
                st['sid'] = req.stream_id
                world.bind(side, st['sid'], uid)
                sub = self.make_subscriber(uid, side, 'resp', spec.get('sub', {}))
                req.initial_request_n(sub.n0)
                sub.requested = sub.n0
                world.ev(side, 'initial_n', uid=uid, dir='resp', n=sub.n0)
                req.subscribe(sub)
            elif k == 'ch':
                rsrc = spec.get('rsrc')
                pub = self.make_source(uid, side, 'req', rsrc) if rsrc is not None else None
                req = sock.request_channel(payload, pub)
                st['sid'] = req.stream_id
                world.bind(side, st['sid'], uid)
                sub = self.make_subscriber(uid, side, 'resp', spec.get('sub', {}))
                req.initial_request_n(sub.n0)
                sub.requested = sub.n0
                world.ev(side, 'initial_n', uid=uid, dir='resp', n=sub.n0)
                req.subscribe(sub)
            else:
                raise HarnessError('unknown interaction kind %r' % k)
        except HarnessError:
            raise
        except Exception as e:  # the API itself raised (e.g. lease queue full, allocation failure)
            world.ev(side, 'issue_raised', uid=uid, exc=repr(e), exc_type=type(e).__name__)
            st['issue_raised'] = repr(e)
        ev['sid'] = st['sid']
        return True

    def _rr_done(self, uid, side, f):
        if f.cancelled():
            self.world.ev(side, 'rr_cancelled', uid=uid)
        elif f.exception() is not None:
            self.world.ev(side, 'rr_error', uid=uid, exc=repr(f.exception()), exc_type=type(f.exception()).__name__)
        else:
            d, m = A.pl(f.result())
            self.world.ev(side, 'rr_result', uid=uid, data=d, metadata=m)

    Scenario.make_source = make_source
    Scenario.make_subscriber = make_subscriber
    Scenario.resolve = resolve
    Scenario.start = start
    Scenario._rr_done = _rr_done


_methods_ready = False


def _ensure():
    global _methods_ready
    if not _methods_ready:
        _scn_methods()
        patch_datetime()
        _methods_ready = True


def side_of(st, dirn, role):
    """Which endpoint hosts the publisher ('pub') or subscriber ('sub') of direction dirn."""
    req_side = st['spec']['side']
    if dirn == 'resp':
        return OTHER[req_side] if role == 'pub' else req_side
    return req_side if role == 'pub' else OTHER[req_side]


async def _execute(loop, program, observe=None):
    _ensure()
    from rsocket.rsocket_client import RSocketClient
    from rsocket.rsocket_server import RSocketServer
    from rsocket.helpers import single_transport_provider

    cfg = program.get('cfg', {})
    world = simnet.World(loop)
    scn = Scenario(world, program)
    conn = simnet.Conn(world, message_mode=bool(cfg.get('msg')), read_buffer=tuple(cfg.get('rbuf', (1024, 1024))))
    frag = cfg.get('frag', [None, None])
    ka = timedelta(seconds=cfg.get('ka', 100000.0))
    life = timedelta(seconds=cfg.get('life', 1000000.0))
    common = dict(keep_alive_period=ka, max_lifetime_period=life)
    lease = cfg.get('lease')
    skw, ckw = {}, {}
    lease_pub = None
    if lease:
        lease_pub = ManualLeasePublisher(world)
        skw['lease_publisher'] = lease_pub
        ckw['honor_lease'] = True
        ckw['request_queue_size'] = lease.get('queue', 0)
    server = RSocketServer(conn.transport['s'], handler_factory=make_handler_class(scn, 's'),
                           fragment_size_bytes=frag[1], **common, **skw)
    client = RSocketClient(single_transport_provider(conn.transport['c']),
                           handler_factory=make_handler_class(scn, 'c'),
                           fragment_size_bytes=frag[0], **common, **ckw)
    scn.sock = {'c': client, 's': server}
    cs = cfg.get('connect')
    if cs:
        conn.transport['c'].connect_script = tuple(cs)
    await client.connect()
    idmask = cfg.get('idmask')
    if idmask:
        for s in (client, server):
            s._stream_control._maximum_stream_id = idmask
    regime = {'mode': cfg.get('regime', 'pumped')}
    state = {'faulted': False, 'nsteps': 0}

    async def tick(k=1):
        for _ in range(k):
            await asyncio.sleep(0)
            if regime['mode'] == 'pumped':
                await conn.pump()

    def started_uid(ix):
        if not scn.started:
            return None
        return scn.started[ix % len(scn.started)]

    next_start = [0]
    for op in program.get('ops', []):
        name = op[0]
        state['nsteps'] += 1
        if name == 'start':
            scn.start(next_start[0])
            next_start[0] += 1
        elif name == 'tick':
            await tick(op[1] if len(op) > 1 else 1)
        elif name == 'adv':
            await asyncio.sleep(op[1] / 1000.0)
            await tick(1)
        elif name == 'deliver':
            side = op[1]
            l = conn.link[side]
            if conn.message_mode:
                await l.deliver_messages(op[2] if len(op) > 2 else None)
            else:
                l.deliver_bytes(op[2] if len(op) > 2 else None)
        elif name == 'regime':
            regime['mode'] = op[1]
        elif name == 'block':
            conn.block(op[1])
        elif name == 'unblock':
            conn.unblock(op[1])
        elif name in ('emit', 'end', 'req', 'cancel', 'resolve'):
            uid = started_uid(op[1])
            if uid is None:
                continue
            st = scn.st[uid]
            if name == 'resolve':
                scn.resolve(uid)
            elif name == 'cancel' and st['spec']['k'] == 'rr':
                fut = st.get('fut')
                if fut is not None and not fut.done():
                    world.ev(st['spec']['side'], 'rr_cancel_call', uid=uid)
                    fut.cancel()
            else:
                dirn = op[2]
                if name == 'emit':
                    p = st['pub'].get(dirn)
                    if p is not None:
                        p.emit(op[3])
                elif name == 'end':
                    p = st['pub'].get(dirn)
                    if p is not None:
                        p.end()
                elif name == 'req':
                    s = st['sub'].get(dirn)
                    if s is not None:
                        s.request(op[3])
                elif name == 'cancel':
                    s = st['sub'].get(dirn)
                    if s is not None:
                        s.cancel()
        elif name == 'lease':
            if lease_pub is not None:
                lease_pub.publish(op[1], op[2])
        elif name == 'cut':
            state['faulted'] = True
            world.ev('net', 'cut', mode=op[1])
            conn.cut(op[1])
        elif name == 'close':
            state['faulted'] = True
            world.ev(op[1], 'close_call')
            await scn.sock[op[1]].close()
            world.ev(op[1], 'close_returned')
        else:
            raise HarnessError('unknown op %r' % (op,))

    quiet = True
    if program.get('heal', True):
        regime['mode'] = 'pumped'
        conn.unblock('c')
        conn.unblock('s')
        quiet = False
        stale = 0
        if lease_pub is not None and program.get('heal_lease', True):
            await simnet.run_until_quiet(loop, [conn])
            lease_pub.publish(1000000, 100000000)
        for rnd in range(400):
            ok = await simnet.run_until_quiet(loop, [conn])
            before = world.seq
            progressed = False
            if not state['faulted'] or program.get('heal_after_fault'):
                for uid in list(scn.started):
                    st = scn.st[uid]
                    for dirn, p in st['pub'].items():
                        if p.can_emit():
                            p.emit(4)
                            progressed = True
                        elif p.remaining() == 0 and p.can_end():
                            p.end()
                            progressed = True
                    if st['spec']['k'] == 'rr' and st['spec'].get('resp', {}).get('mode') == 'manual':
                        if scn.resolve(uid):
                            progressed = True
                    for dirn, s in st['sub'].items():
                        if (not s.terminal and not s.cancelled and s.subscription is not None
                                and s.requested < MAXN and program.get('heal_credit', True)):
                            s.request(MAXN)
                            progressed = True
            if not progressed:
                # let delayed callbacks (late futures, awaits in async generators) fire
                await asyncio.sleep(0.05)
                await simnet.run_until_quiet(loop, [conn])
                if world.seq == before:
                    stale += 1
                    if stale >= 2:
                        quiet = ok
                        break
                else:
                    stale = 0
            else:
                stale = 0

    world.frozen = True
    tr = Trace()
    tr.world = world
    tr.scn = scn
    tr.conn = conn
    tr.quiet = quiet
    tr.faulted = state['faulted']
    tr.loop_errors = list(loop.errors)
    tr.final = {}
    for side, sock in scn.sock.items():
        sc = getattr(sock, '_stream_control', None)
        cache = getattr(sock, '_frame_fragment_cache', None)
        if sc is None or not hasattr(sc, '_streams') or cache is None or not hasattr(cache, '_frames_by_stream_id'):
            raise HarnessError('stream table / reassembly cache not observable')
        tr.final[side] = {
            'streams': sorted(sc._streams.keys()),
            'frags': sorted(cache._frames_by_stream_id.keys()),
            'sendq': sock._send_queue.qsize(),
            'sender_done': sock._sender_task is None or sock._sender_task.done(),
            'receiver_done': sock._receiver_task is None or sock._receiver_task.done(),
        }
    if observe is not None:
        await observe(tr)
    return tr


def run_program(program, observe=None):
    return run_case(_execute, program, observe)
