"""Interpreter for SimNet programs: (code, program) -> Trace. Pure: no RNG, no wall clock.

program = {
  'cfg':  {'msg': bool, 'frag': [client|None, server|None], 'rbuf': [c, s], 'ka': seconds, 'life': seconds,
           'on_close_waits': 'pending' | seconds  (the handlers' on_close waits for the side's outstanding request-responses / sleeps),
           'lease': {...}|None, 'idmask': int|None, 'none_empty': bool, 'write_delay': [c_seconds, s_seconds] (slow link)},
  'inter': [interaction spec, ...]      (started by 'start' ops, in order)
  'ops':  [[op, args...], ...]
  'heal': bool (default True)
}
interaction spec:
  {'k': 'rr'|'fnf'|'mp'|'st'|'ch', 'side': 'c'|'s', 'req': [dlen, mlen],
   'resp': {'mode': 'now'|'manual'|'fail'|'raise'|'late'|'cancelled'|'cancel_late'|'fail_late', 'delay': ticks, 'p': [d, m]}  (rr)
   'src':  {'kind': 'manual'|'gen'|'agen', 'els': [[d, m], ...], 'end': 'flag'|'sep'|'error'|'none',
            'err_at': k|None, 'awaits': k, 'pace': ms (gen/agen: delay_between_messages)} | None                                                (st, ch responder)
   'sub':  {'n0': n, 'refill': k}                                                               (st, ch requester)
   'rsrc': like src | None   (channel: requester's publisher)
   'rsub': like sub | None   (channel: responder's subscriber) }
"""
import os
import asyncio
from datetime import timedelta

from harness import app as A
from harness import simnet
from harness.common import HarnessError, CaseTimeout, repo_exception_sig
from harness.vloop import run_case, patch_datetime

MAXN = 0x7FFFFFFF
OTHER = {'c': 's', 's': 'c'}


class Trace:
    pass


class RawPeer:
    """The harness itself as the peer of one real endpoint: writes reference-codec frames (or arbitrary bytes) onto the
    link and decodes what the endpoint emits with the reference codec."""

    def __init__(self, world, conn, side):
        from harness import refcodec
        self.rc = refcodec
        self.world = world
        self.side = side
        self.conn = conn
        self.out = conn.link[side]
        self.inp = conn.link[OTHER[side]]
        self.inp.sink = self
        self.buf = bytearray()
        self.frames = []  # decoded frames from the endpoint (refcodec dicts + seq)
        self.undecodable = []
        self.eof = False
        self.error = False
        self.next_sid = 1 if side == 'c' else 2
        self.elem_idx = {}

    # sink interface
    def _decoded(self, body):
        try:
            w = self.rc.decode(body)
        except self.rc.RefDecodeError as e:
            self.undecodable.append(bytes(body))
            self.world.ev(self.side, 'raw_recv_undecodable', n=len(body), err=str(e))
            return
        e = self.world.ev(self.side, 'raw_recv', w=w)
        w = dict(w)
        w['seq'] = e['seq']
        self.frames.append(w)

    def feed(self, chunk):
        self.buf += chunk
        bodies, rest = self.rc.split_stream(bytes(self.buf))
        self.buf = bytearray(rest)
        for b in bodies:
            self._decoded(b)

    async def feed_message(self, msg):
        self._decoded(msg)

    def feed_eof(self):
        if not self.eof:
            self.eof = True
            self.world.ev(self.side, 'raw_eof')

    def feed_error(self, mode="error"):
        self.error = True
        self.world.ev(self.side, 'raw_error')

    # sending
    def send_value(self, v):
        body = self.rc.encode(v)
        self.world.ev(self.side, 'raw_send', w=v)
        self.send_body(body, log=False)

    def send_body(self, body, log=True):
        if log:
            self.world.ev(self.side, 'raw_send_bytes', n=len(body), body=bytes(body[:64]))
        if self.conn.message_mode:
            self.out.write(bytes(body))
        else:
            self.out.write(self.rc.frame_with_length(bytes(body)))

    def send_raw_bytes(self, data):
        """byte mode only: bytes with no framing added"""
        self.world.ev(self.side, 'raw_send_unframed', n=len(data))
        self.out.write(bytes(data))

    def alloc(self):
        sid = self.next_sid
        self.next_sid += 2
        return sid


class ManualLeasePublisher:
    """Lease publisher for the responder: publishes DefinedLease(count, ttl) when an operation says so."""

    def __init__(self, world):
        self.world = world
        self.subscriber = None
        self.published = []

    def subscribe(self, subscriber):
        self.subscriber = subscriber
        self.world.ev('s', 'lease_subscribed')

    def publish(self, count, ttl_ms):
        from rsocket.lease import DefinedLease
        if self.subscriber is None:
            return False
        self.world.ev('s', 'lease_published', count=count, ttl_ms=ttl_ms)
        self.published.append((count, ttl_ms))
        self.last = DefinedLease(maximum_request_count=count, maximum_lease_time=timedelta(milliseconds=ttl_ms))
        self.subscriber.on_next(self.last)
        return True

    def publish_again(self):
        """a renewal loop that keeps one lease object and emits it again"""
        if self.subscriber is None or getattr(self, 'last', None) is None:
            return False
        count, ttl_ms = self.published[-1]
        self.world.ev('s', 'lease_published', count=count, ttl_ms=ttl_ms, same_object=True)
        self.published.append((count, ttl_ms))
        self.subscriber.on_next(self.last)
        return True


class Scenario:
    def __init__(self, world, program):
        self.world = world
        self.program = program
        self.cfg = program.get('cfg', {})
        self.inter = program.get('inter', [])
        self.started = []  # uids in start order
        self.st = {}  # uid -> state dict
        self.sock = {}
        self.handlers = {}
        self.none_empty = bool(self.cfg.get('none_empty'))

    # ---- lookup used by handlers
    def lookup(self, side):
        sid = self.world.last_recv_sid.get(side)
        uid = self.world.take(OTHER[side], sid, self.world.last_recv_cx.get(side, 0))
        return sid, uid


def make_handler_class(scn, side):
    L = A.classes()
    world = scn.world
    Base = L['BaseRequestHandler']

    class RecHandler(Base):
        def __init__(self, *a, **kw):
            super().__init__()
            scn.handlers[side] = self

        def _ev(self, kind, **kw):
            return world.ev(side, kind, **kw)

        async def on_setup(self, data_encoding, metadata_encoding, payload):
            d, m = A.pl(payload)
            self._ev('on_setup', data_encoding=data_encoding, metadata_encoding=metadata_encoding, data=d, metadata=m)
            kind = scn.cfg.get('setup_raises')
            if kind:
                # how an application refuses a connection: any exception type, including the library's own
                if kind in (True, 'app'):
                    raise A.AppError('setup refused')
                from rsocket.exceptions import RSocketProtocolError, RSocketStreamIdInUse
                from rsocket.error_codes import ErrorCode
                if kind == 'value_error':
                    raise ValueError('setup refused')
                if kind == 'stream_in_use':
                    raise RSocketStreamIdInUse(7)
                code = {'protocol_rejected': ErrorCode.REJECTED, 'protocol_app': ErrorCode.APPLICATION_ERROR,
                        'protocol_invalid': ErrorCode.INVALID, 'protocol_setup': ErrorCode.REJECTED_SETUP}[kind]
                raise RSocketProtocolError(code, data='setup refused')

        async def on_close(self, rsocket, exception=None):
            self._ev('on_close', exc=repr(exception) if exception else None)
            target = scn.cfg.get('on_close_start')
            if target is not None and target < len(scn.inter) and scn.inter[target]['side'] == side and target not in scn.st \
                    and not world.frozen:
                # the application reacts to the close notification by issuing a request (a last report, a retry)
                self._ev('issued_from_on_close', uid=target)
                scn.start(target)
            waits = scn.cfg.get('on_close_waits')
            if waits:
                # an application whose close notification does some work of its own: it sleeps, or it waits until the
                # requests it has outstanding have got their outcome (which the library owes them by now)
                if waits == 'pending':
                    for _ in range(6000):
                        futs = [st_['fut'] for st_ in scn.st.values() if st_['spec']['side'] == side and st_['spec']['k'] == 'rr'
                                and st_.get('fut') is not None]
                        if all(f.done() for f in futs):
                            break
                        await asyncio.sleep(0.01)
                else:
                    await asyncio.sleep(float(waits))
                self._ev('on_close_returned')
            if side == 'c' and scn.cfg.get('on_close_reconnect'):
                self._ev('reconnect_call', where='on_close')
                await rsocket.reconnect()

        async def on_error(self, error_code, payload):
            d, m = A.pl(payload)
            self._ev('handler_on_error', code=int(error_code), data=d)

        async def on_connection_error(self, rsocket, exception):
            self._ev('on_connection_error', exc=repr(exception))

        async def on_keepalive_timeout(self, time_since_last_keepalive, rsocket):
            self._ev('on_keepalive_timeout', since=time_since_last_keepalive.total_seconds())
            hook = scn.cfg.get('on_ka_timeout')
            if hook == 'reconnect':
                self._ev('reconnect_call', where='on_keepalive_timeout')
                await rsocket.reconnect()
            elif hook == 'close':
                # the application gives the connection up: close() called from inside the notification
                self._ev('close_call', where='on_keepalive_timeout')
                try:
                    await rsocket.close()
                except Exception as e:
                    self._ev('close_raised', exc=repr(e)[:200])
                self._ev('close_returned')

        async def on_metadata_push(self, payload):
            d, m = A.pl(payload)
            self._ev('handler', k='mp', uid=None, sid=0, data=d, metadata=m)
            if scn.cfg.get('mp_raises'):
                raise A.AppError('metadata push handler raises')

        async def request_fire_and_forget(self, payload):
            sid, uid = scn.lookup(side)
            d, m = A.pl(payload)
            self._ev('handler', k='fnf', uid=uid, sid=sid, data=d, metadata=m)
            st = scn.st.get(uid)
            if st is not None and st['spec'].get('handler_raises'):
                raise A.AppError('fnf handler %s raises' % uid)

        async def request_response(self, payload):
            sid, uid = scn.lookup(side)
            d, m = A.pl(payload)
            self._ev('handler', k='rr', uid=uid, sid=sid, data=d, metadata=m)
            st = scn.st.get(uid)
            if st is None or st['spec']['k'] != 'rr':
                raise A.AppError('no script for stream %s' % sid)
            resp = st['spec'].get('resp', {'mode': 'now', 'p': [1, 0]})
            mode = resp.get('mode', 'now')
            if mode == 'raise':
                self._ev('handler_raises', k='rr', uid=uid, sid=sid)
                raise A.AppError('handler %d raises' % uid)
            fut = world.loop.create_future()
            st['hfut'] = fut
            fut.add_done_callback(
                lambda f: world.ev(side, 'hfut_done', uid=uid, cancelled=f.cancelled()))
            if mode == 'now':
                scn.resolve(uid)
            elif mode == 'fail':
                world.ev(side, 'hfut_fail', uid=uid)
                fut.set_exception(A.AppError('response %d failed' % uid))
            elif mode == 'late':
                world.loop.call_later(resp.get('delay', 1) * 0.001, scn.resolve, uid)
            elif mode == 'cancelled':
                # the application gave up on its own work before handing the future over
                world.ev(side, 'hfut_app_cancel', uid=uid)
                fut.cancel()
            elif mode == 'cancel_late':
                def _cancel():
                    world.ev(side, 'hfut_app_cancel', uid=uid)
                    fut.cancel()
                world.loop.call_later(resp.get('delay', 1) * 0.001, _cancel)
            elif mode == 'fail_late':
                def _fail():
                    if not fut.done():
                        world.ev(side, 'hfut_fail', uid=uid)
                        fut.set_exception(A.AppError('response %d failed late' % uid))
                world.loop.call_later(resp.get('delay', 1) * 0.001, _fail)
            return fut

        async def request_stream(self, payload):
            sid, uid = scn.lookup(side)
            d, m = A.pl(payload)
            self._ev('handler', k='st', uid=uid, sid=sid, data=d, metadata=m)
            st = scn.st.get(uid)
            if st is None or st['spec']['k'] != 'st':
                raise A.AppError('no script for stream %s' % sid)
            if st['spec'].get('handler_raises'):
                raise A.AppError('handler %d raises' % uid)
            return scn.make_source(uid, side, 'resp', st['spec'].get('src'))

        async def request_channel(self, payload):
            sid, uid = scn.lookup(side)
            d, m = A.pl(payload)
            self._ev('handler', k='ch', uid=uid, sid=sid, data=d, metadata=m)
            st = scn.st.get(uid)
            if st is None or st['spec']['k'] != 'ch':
                raise A.AppError('no script for stream %s' % sid)
            if st['spec'].get('handler_raises'):
                raise A.AppError('handler %d raises' % uid)
            src = st['spec'].get('src')
            pub = scn.make_source(uid, side, 'resp', src) if src is not None else None
            rsub = st['spec'].get('rsub')
            sub = None
            if rsub is not None:
                sub = scn.make_subscriber(uid, side, 'req', rsub, request_on_subscribe=True)
            return pub, sub

    return RecHandler


def _scn_methods():
    L = A.classes()

    def make_source(self, uid, side, dirn, src):
        st = self.st[uid]
        tag = A.TAG_RESP if dirn == 'resp' else A.TAG_REQEL
        kind = src.get('kind', 'manual')
        els = src.get('els', [])
        end = src.get('end', 'flag')
        if kind == 'manual':
            p = L['ManualPublisher'](self.world, side, uid, dirn, tag, els, end, none_for_empty=self.none_empty,
                                     cancel_raises=bool(src.get('cancel_raises')), raise_in=src.get('raise_in'))
            st['pub'][dirn] = p
            return p
        if kind in ('gen', 'agen'):
            p = L['gen_source'](self.world, side, uid, dirn, tag, els, end, err_at=src.get('err_at'),
                                asynchronous=(kind == 'agen'), awaits=src.get('awaits', 0),
                                none_for_empty=self.none_empty, pace=src.get('pace', 0))
            st['libpub'][dirn] = p
            return p
        if kind in ('rx3', 'rx4', 'rx3bp', 'rx4bp'):
            p = L['rx_source'](self.world, side, uid, dirn, tag, els, 'error' if end == 'error' else 'sep',
                               version=int(kind[2]), backpressure=kind.endswith('bp'), err_at=src.get('err_at'),
                               none_for_empty=self.none_empty)
            st['libpub'][dirn] = p
            return p
        raise HarnessError('unknown source kind %r' % kind)

    def make_subscriber(self, uid, side, dirn, spec, request_on_subscribe=False):
        st = self.st[uid]
        n0 = spec.get('n0', MAXN)
        sub = L['RecSubscriber'](self.world, side, uid, dirn, n0=n0, refill=spec.get('refill', 0),
                                 raise_at=spec.get('raise_at'), cancel_at=spec.get('cancel_at'),
                                 error_raises=bool(spec.get('error_raises')),
                                 request_after_cancel=bool(spec.get('request_after_cancel')))
        st['sub'][dirn] = sub
        if spec.get('on_error_start') is not None:
            # the application retries from inside on_error (what a retry operator does): start another interaction
            orig_err = sub.on_error
            target = spec['on_error_start']

            def on_error(exc, _orig=orig_err):
                _orig(exc)
                if not self.world.frozen and target not in self.st:
                    self.world.ev(side, 'retry_from_on_error', uid=uid, starts=target)
                    self.start(target)

            sub.on_error = on_error
        if request_on_subscribe:
            orig = sub.on_subscribe

            def on_subscribe(subscription, _orig=orig, _sub=sub):
                _orig(subscription)
                if _sub.n0 > 0:
                    _sub.request(_sub.n0)

            sub.on_subscribe = on_subscribe
        return sub

    def resolve(self, uid):
        st = self.st.get(uid)
        if st is None:
            return False
        fut = st.get('hfut')
        if fut is None or fut.done():
            return False
        resp = st['spec'].get('resp', {})
        d, m = A.payload_bytes(uid, A.TAG_RESP, 0, resp.get('p', [1, 0]))
        side = OTHER[st['spec']['side']]
        self.world.ev(side, 'hand', uid=uid, dir='resp', idx=0, data=d, metadata=m, complete=True)
        fut.set_result(A.mk_payload(d, m, self.none_empty))
        return True

    def start(self, i):
        if i >= len(self.inter) or i in self.st:
            return False  # (an interaction is started once; a retry hook may already have started it)
        spec = self.inter[i]
        uid = i
        side = spec['side']
        sock = self.sock.get(side)
        if sock is None:
            if getattr(self, 'raw', None) is not None and self.raw.side == side:
                return self.raw_request(i)
            return False
        world = self.world
        st = {'spec': spec, 'uid': uid, 'pub': {}, 'libpub': {}, 'sub': {}, 'hfut': None, 'fut': None, 'sid': None}
        self.st[uid] = st
        self.started.append(uid)
        d, m = A.payload_bytes(uid, A.TAG_REQ, 0, spec.get('req', [1, 0]))
        if spec.get('req_meta') is not None:
            m = spec['req_meta']  # explicit metadata bytes (composite metadata for routed requests)
        payload = A.mk_payload(d, m, self.none_empty)
        k = spec['k']
        sc = getattr(sock, '_stream_control', None)
        if sc is None or not hasattr(sc, '_current_stream_id'):
            raise HarnessError('cannot observe allocated stream id (_stream_control._current_stream_id)')
        ev = world.ev(side, 'issue', uid=uid, k=k, data=d, metadata=m)
        try:
            if k == 'rr':
                fut = sock.request_response(payload)
                st['sid'] = sc._current_stream_id
                world.bind(side, st['sid'], uid)
                st['fut'] = fut
                fut.add_done_callback(lambda f: self._rr_done(uid, side, f))
            elif k == 'fnf':
                fut = sock.fire_and_forget(payload)
                st['sid'] = sc._current_stream_id
                world.bind(side, st['sid'], uid)
                st['fut'] = fut
                fut.add_done_callback(lambda f: world.ev(side, 'fnf_sent', uid=uid, cancelled=f.cancelled()))
            elif k == 'mp':
                fut = sock.metadata_push(m)
                st['sid'] = 0
                st['fut'] = fut
            elif k == 'st':
                req = sock.request_stream(payload)
                st['sid'] = req.stream_id
                world.bind(side, st['sid'], uid)
                sub = self.make_subscriber(uid, side, 'resp', spec.get('sub', {}))
                req.initial_request_n(sub.n0)
                sub.requested = sub.n0
                world.ev(side, 'initial_n', uid=uid, dir='resp', n=sub.n0)
                if spec.get('late_subscribe'):
                    st['deferred'] = (req, sub)  # a cold publisher: created (and registered) now, subscribed later or never
                    world.ev(side, 'subscribe_deferred', uid=uid)
                else:
                    req.subscribe(sub)
            elif k == 'ch':
                rsrc = spec.get('rsrc')
                pub = self.make_source(uid, side, 'req', rsrc) if rsrc is not None else None
                req = sock.request_channel(payload, pub)
                st['sid'] = req.stream_id
                world.bind(side, st['sid'], uid)
                sub = self.make_subscriber(uid, side, 'resp', spec.get('sub', {}))
                req.initial_request_n(sub.n0)
                sub.requested = sub.n0
                world.ev(side, 'initial_n', uid=uid, dir='resp', n=sub.n0)
                if spec.get('late_subscribe'):
                    st['deferred'] = (req, sub)
                    world.ev(side, 'subscribe_deferred', uid=uid)
                else:
                    req.subscribe(sub)
            else:
                raise HarnessError('unknown interaction kind %r' % k)
        except HarnessError:
            raise
        except Exception as e:  # the API itself raised (e.g. lease queue full, allocation failure)
            world.ev(side, 'issue_raised', uid=uid, exc=repr(e), exc_type=type(e).__name__)
            st['issue_raised'] = repr(e)
        ev['sid'] = st['sid']
        return True

    def _rr_done(self, uid, side, f):
        if f.cancelled():
            self.world.ev(side, 'rr_cancelled', uid=uid)
        elif f.exception() is not None:
            self.world.ev(side, 'rr_error', uid=uid, exc=repr(f.exception()), exc_type=type(f.exception()).__name__)
        else:
            d, m = A.pl(f.result())
            self.world.ev(side, 'rr_result', uid=uid, data=d, metadata=m)
        nxt = self.st[uid]['spec'].get('then_start')
        if nxt is not None and not self.world.frozen:
            # the application reacts to the outcome by issuing its next request (from the future's callback)
            for t_ in (nxt if isinstance(nxt, list) else [nxt]):
                if t_ not in self.st:
                    self.world.ev(side, 'issued_from_callback', uid=t_, after=uid)
                    self.start(t_)

    def raw_request(self, i, opts=None):
        """The raw peer opens interaction i (its spec's side must be the raw side)."""
        opts = opts or {}
        if i >= len(self.inter):
            return False
        spec = self.inter[i]
        raw = self.raw
        uid = i
        side = raw.side
        sid = opts.get('sid') or raw.alloc()
        st = {'spec': dict(spec, side=side), 'uid': uid, 'pub': {}, 'libpub': {}, 'sub': {}, 'hfut': None, 'fut': None,
              'sid': sid, 'raw': True}
        self.st[uid] = st
        self.started.append(uid)
        self.world.bind(side, sid, uid)
        d, m = A.payload_bytes(uid, A.TAG_REQ, 0, spec.get('req', [1, 0]))
        k = spec['k']
        self.world.ev(side, 'issue', uid=uid, k=k, data=d, metadata=m, sid=sid, raw=True)
        t = {'rr': 'REQUEST_RESPONSE', 'fnf': 'REQUEST_FNF', 'st': 'REQUEST_STREAM', 'ch': 'REQUEST_CHANNEL'}[k]
        v = {'type': t, 'sid': sid, 'data': d, 'metadata': m if m else None}
        if k in ('st', 'ch'):
            v['n'] = opts.get('n', spec.get('sub', {}).get('n0', MAXN))
        if k == 'ch':
            v['complete'] = bool(opts.get('complete', spec.get('rsrc') is None))
        fsize = opts.get('frag')
        if fsize:
            for fv in ref_fragments(v, fsize):
                raw.send_value(fv)
        else:
            raw.send_value(v)
        return True

    def raw_stream_frame(self, uid, kind, arg=None):
        st = self.st[uid]
        raw = self.raw
        sid = st['sid']
        if sid in (None, 0):
            return False
        raw_is_requester = st['spec']['side'] == raw.side
        dirn = 'req' if raw_is_requester else 'resp'
        tag = A.TAG_REQEL if raw_is_requester else A.TAG_RESP
        if kind in ('next', 'next_complete'):
            key = (uid, dirn)
            idx = raw.elem_idx.get(key, 0)
            raw.elem_idx[key] = idx + 1
            lens = arg if isinstance(arg, (list, tuple)) else [5, 0]
            d, m = A.payload_bytes(uid, tag, idx, lens)
            complete = kind == 'next_complete'
            self.world.ev(raw.side, 'hand', uid=uid, dir=dirn, idx=idx, data=d, metadata=m, complete=complete, raw=True)
            raw.send_value({'type': 'PAYLOAD', 'sid': sid, 'next': True, 'complete': complete, 'data': d,
                            'metadata': m if m else None})
        elif kind == 'frag':
            # a non-final fragment of a payload train (the train is closed by a later next / next_complete, or abandoned)
            n = arg if isinstance(arg, int) and arg else 7
            self.world.ev(raw.side, 'raw_frag', uid=uid, dir=dirn, n=n)
            raw.send_value({'type': 'PAYLOAD', 'sid': sid, 'follows': True, 'next': True, 'complete': False,
                            'data': b'f' * n, 'metadata': None})
        elif kind == 'complete':
            self.world.ev(raw.side, 'hand_end', uid=uid, dir=dirn, how='complete', raw=True)
            raw.send_value({'type': 'PAYLOAD', 'sid': sid, 'next': False, 'complete': True, 'data': b'', 'metadata': None})
        elif kind == 'error':
            self.world.ev(raw.side, 'hand_end', uid=uid, dir=dirn, how='error', raw=True)
            # (error data SHOULD be UTF-8 text, it need not be: 'bin' sends bytes that are not; 'bin_rejected' with another code)
            data = b'raw peer error' if not arg else b'\xff\xfe raw \x80\x81 error'
            raw.send_value({'type': 'ERROR', 'sid': sid, 'code': 0x202 if arg == 'bin_rejected' else 0x201, 'data': data})
        elif kind == 'request_n':
            self.world.ev(raw.side, 'raw_request_n', uid=uid, n=arg or 1)
            raw.send_value({'type': 'REQUEST_N', 'sid': sid, 'n': arg or 1})
        elif kind == 'cancel':
            self.world.ev(raw.side, 'raw_cancel', uid=uid)
            raw.send_value({'type': 'CANCEL', 'sid': sid})
        return True

    Scenario.raw_request = raw_request
    Scenario.raw_stream_frame = raw_stream_frame
    Scenario.make_source = make_source
    Scenario.make_subscriber = make_subscriber
    Scenario.resolve = resolve
    Scenario.start = start
    Scenario._rr_done = _rr_done


_methods_ready = False


def _ensure():
    global _methods_ready
    if not _methods_ready:
        _scn_methods()
        patch_datetime()
        _methods_ready = True


def ref_fragments(v, size, length_prefixed=True):
    """Reference fragmenter (from the protocol text): metadata first, then data, every fragment <= size on the wire."""
    hdr = 10 if v['type'] in ('REQUEST_STREAM', 'REQUEST_CHANNEL') else 6
    md = v.get('metadata') or b''
    data = v.get('data') or b''
    out = []
    first = True
    pos_m = pos_d = 0
    while True:
        budget = size - (hdr if first else 6) - (3 if length_prefixed else 0)
        fm = b''
        fd = b''
        if pos_m < len(md):
            take = max(1, min(len(md) - pos_m, budget - 3))
            fm = md[pos_m:pos_m + take]
            pos_m += take
            budget -= 3 + take
        if pos_m >= len(md) and pos_d < len(data) and budget > 0:
            fd = data[pos_d:pos_d + budget]
            pos_d += len(fd)
        last = pos_m >= len(md) and pos_d >= len(data)
        f = {'type': v['type'] if first else 'PAYLOAD', 'sid': v['sid'], 'follows': not last,
             'metadata': fm if fm else None, 'data': fd}
        if first and 'n' in v:
            f['n'] = v['n']
        if not first:
            f['next'] = True
        if last and v.get('complete'):
            f['complete'] = True
        out.append(f)
        first = False
        if last:
            return out


def side_of(st, dirn, role):
    """Which endpoint hosts the publisher ('pub') or subscriber ('sub') of direction dirn."""
    req_side = st['spec']['side']
    if dirn == 'resp':
        return OTHER[req_side] if role == 'pub' else req_side
    return req_side if role == 'pub' else OTHER[req_side]


async def _execute(loop, program, observe=None):
    _ensure()
    from rsocket.rsocket_client import RSocketClient
    from rsocket.rsocket_server import RSocketServer
    from rsocket.helpers import single_transport_provider

    cfg = program.get('cfg', {})
    world = simnet.World(loop)
    scn = Scenario(world, program)
    conn = simnet.ConnSet()
    frag = cfg.get('frag', [None, None])
    ka = timedelta(seconds=cfg.get('ka', 100000.0))
    life = timedelta(seconds=cfg.get('life', 1000000.0))
    common = dict(keep_alive_period=ka, max_lifetime_period=life)
    lease = cfg.get('lease')
    skw, ckw = {}, {}
    lease_pub = None
    if lease:
        lease_pub = ManualLeasePublisher(world)
        skw['lease_publisher'] = lease_pub
        ckw['honor_lease'] = True
        ckw['request_queue_size'] = lease.get('queue', 0)
    if cfg.get('client_lease_publisher'):
        # a client that grants leases itself (it has a lease publisher), whether or not it honours the server's
        ckw['lease_publisher'] = ManualLeasePublisher(world)
        if cfg['client_lease_publisher'] == 'eager':
            # a publisher that has a lease ready and hands it over from inside subscribe() (legal for a Publisher)
            eager = ckw['lease_publisher']
            plain_subscribe = eager.subscribe

            def subscribe_and_emit(subscriber, _plain=plain_subscribe, _pub=eager):
                _plain(subscriber)
                _pub.publish(5, 10000)
            eager.subscribe = subscribe_and_emit
    raw_side = cfg.get('raw')
    scn.raw = None
    scn.raws = []
    scn.servers = []
    scn.sock = {}
    ckw.update(cfg.get('client_kwargs', {}))
    skw.update(cfg.get('server_kwargs', {}))
    if cfg.get('setup_payload') is not None:
        d, m = cfg['setup_payload']
        ckw['setup_payload'] = A.mk_payload(d, m)
    for key in ('data_encoding', 'metadata_encoding'):
        if cfg.get(key) is not None:
            val = cfg[key]
            if isinstance(val, dict) and 'enum' in val:
                from rsocket.extensions.mimetypes import WellKnownMimeTypes
                val = getattr(WellKnownMimeTypes, val['enum'])
            elif isinstance(val, dict) and 'str' in val:
                val = val['str']
            ckw[key] = val
    if cfg.get('lease') and cfg['lease'].get('server_without_publisher'):
        skw.pop('lease_publisher', None)
    connect_scripts = cfg.get('connect')
    if connect_scripts and not isinstance(connect_scripts[0], (list, tuple)) and connect_scripts[0] is not None:
        connect_scripts = [connect_scripts]

    def open_connection(index):
        """A fresh connection: links, tapped transports, and a fresh server side (real server or raw peer)."""
        c = simnet.Conn(world, message_mode=bool(cfg.get('msg')), read_buffer=tuple(cfg.get('rbuf', (1024, 1024))),
                        index=index)
        c.tag()
        wd = cfg.get('write_delay')
        if wd:
            for sd, d in zip(('c', 's'), wd):
                if d and sd in c.writer:
                    c.writer[sd].delay = d
        conn.conns.append(c)
        c.set_auto(conn.auto)
        world.cur_cx = index
        world.ev('net', 'connection_opened', cx=index)
        if raw_side:
            r = RawPeer(world, c, raw_side)
            r.cx = index
            scn.raw = r
            scn.raws.append(r)
        if raw_side != 's':
            hf = (program.get('_handler_factory') or {}).get('s')
            if hf and getattr(scn, '_server_handler_factory', None) is None:
                # one handler factory object for all connections of the run, as a listening application has it
                scn._server_handler_factory = hf(scn)
            srv = RSocketServer(c.transport['s'], handler_factory=scn._server_handler_factory if hf else make_handler_class(scn, 's'),
                                fragment_size_bytes=frag[1], **common, **skw)
            scn.sock['s'] = srv
            scn.servers.append(srv)
            tap_queue(srv, 's')
            if cfg.get('idmask'):
                srv._stream_control._maximum_stream_id = cfg['idmask']
        if connect_scripts and index < len(connect_scripts) and connect_scripts[index]:
            c.transport['c'].connect_script = tuple(connect_scripts[index])
        ct = cfg.get('close_ticks')
        if ct and index < len(ct) and ct[index]:
            c.transport['c'].close_ticks = ct[index]  # this transport's close() suspends for that many loop iterations
        return c

    def tap_queue(sock, side):
        """Record the moment the endpoint hands a frame to its send queue (that is when it decided to emit it; the 'send'
        event is when the sender task got round to it)."""
        for name in ('send_frame', 'send_priority_frame'):
            orig = getattr(sock, name, None)
            if orig is None:
                continue

            def wrapped(frame, _orig=orig, _side=side):
                try:
                    world.ev(_side, 'queued', ftype=type(frame).__name__, sid=getattr(frame, 'stream_id', None))
                except Exception:
                    pass
                return _orig(frame)

            try:
                setattr(sock, name, wrapped)
            except Exception:
                pass

    conn.set_auto(cfg.get('regime', 'pumped') == 'pumped')
    open_connection(0)
    raw = scn.raw
    connect_task = None
    if raw_side != 'c':
        ntransports = cfg.get('transports', 1)

        async def provider():
            delays = cfg.get('provider_delay') or []
            for i in range(ntransports):
                c = conn.conns[0] if i == 0 else open_connection(i)
                if i < len(delays) and delays[i]:
                    # the provider itself takes a while to produce a transport (name resolution, load balancing, ...)
                    world.ev('c', 'provider_suspends', cx=i, ticks=delays[i])
                    for _ in range(delays[i]):
                        await asyncio.sleep(0)
                world.ev('c', 'provider_yield', cx=i)
                yield c.transport['c']

        hfc = (program.get('_handler_factory') or {}).get('c')
        chf = hfc(scn) if hfc else make_handler_class(scn, 'c')
        late = cfg.get('late_handler')
        if late:
            # the application installs its handler after connecting (set_handler_using_factory), `late` loop iterations later
            client = RSocketClient(provider(), fragment_size_bytes=frag[0], **common, **ckw)
        else:
            client = RSocketClient(provider(), handler_factory=chf, fragment_size_bytes=frag[0], **common, **ckw)
        scn.sock['c'] = client
        tap_queue(client, 'c')
        if cfg.get('connect_async'):
            connect_task = asyncio.ensure_future(client.connect())
            await asyncio.sleep(0)  # connect() has begun (requests are only issued after that)
        else:
            await client.connect()
        if late:
            for _ in range(late):
                await asyncio.sleep(0)
            client.set_handler_using_factory(chf)
            world.ev('c', 'handler_installed_late', ticks=late)
    elif cfg.get('raw_setup', True):
        raw.send_value({'type': 'SETUP', 'sid': 0, 'keepalive': 100000000, 'lifetime': 1000000000,
                        'metadata_mime': b'application/json', 'data_mime': b'application/json', 'metadata': None,
                        'data': b'', 'lease': bool(cfg.get('raw_setup_lease'))})
    idmask = cfg.get('idmask')
    if idmask and connect_task is None:
        for s in scn.sock.values():
            s._stream_control._maximum_stream_id = idmask
    regime = {'mode': cfg.get('regime', 'pumped')}
    state = {'faulted': False, 'nsteps': 0}
    if cfg.get('cutat'):
        ca = cfg['cutat']
        conn.arm_cut(ca['link'], ca['after'], ca.get('mode', 'eof'))

    async def tick(k=1):
        for _ in range(k):
            await asyncio.sleep(0)
            if regime['mode'] == 'pumped':
                await conn.pump()

    def started_uid(ix):
        if not scn.started:
            return None
        return scn.started[ix % len(scn.started)]

    next_start = [0]
    for op in program.get('ops', []):
        name = op[0]
        state['nsteps'] += 1
        if name == 'start':
            scn.start(next_start[0])
            next_start[0] += 1
        elif name == 'tick':
            await tick(op[1] if len(op) > 1 else 1)
        elif name == 'adv':
            await asyncio.sleep(op[1] / 1000.0)
            await tick(1)
        elif name == 'deliver':
            side = op[1]
            l = conn.link[side]
            if conn.message_mode:
                await l.deliver_messages(op[2] if len(op) > 2 else None)
            else:
                l.deliver_bytes(op[2] if len(op) > 2 else None)
        elif name == 'regime':
            regime['mode'] = op[1]
            conn.set_auto(op[1] == 'pumped')
        elif name == 'settle':
            await simnet.run_until_quiet(loop, [conn])
        elif name == 'mark':
            world.ev('net', 'mark', name=op[1])
        elif name == 'snap':
            # ['snap', side, label]: record a structural summary of that endpoint's state
            world.ev(op[1], 'state_snapshot', label=op[2], state=summarise_state(scn.sock[op[1]]))
        elif name == 'subscribe':
            uid = started_uid(op[1])
            if uid is not None and scn.st[uid].get('deferred'):
                req, sub = scn.st[uid].pop('deferred')
                world.ev(scn.st[uid]['spec']['side'], 'subscribe_late', uid=uid)
                try:
                    req.subscribe(sub)
                except Exception as e:
                    world.ev(scn.st[uid]['spec']['side'], 'issue_raised', uid=uid, exc=repr(e), exc_type=type(e).__name__)
        elif name == 'abandon':
            # the application drops a publisher it obtained from request_stream() without ever subscribing to it: cancel()
            uid = started_uid(op[1])
            if uid is not None and scn.st[uid].get('deferred'):
                req, _sub = scn.st[uid].pop('deferred')
                side_ = scn.st[uid]['spec']['side']
                world.ev(side_, 'abandon', uid=uid)
                scn.st[uid]['abandoned'] = True
                world.unbind(side_, scn.st[uid]['sid'], uid)
                try:
                    req.cancel()
                except Exception as e:
                    world.ev(side_, 'abandon_raised', uid=uid, exc=repr(e), exc_type=type(e).__name__)
        elif name == 'block':
            conn.block(op[1])
        elif name == 'unblock':
            conn.unblock(op[1])
        elif name in ('emit', 'end', 'req', 'cancel', 'resolve', 'fail', 'failfut'):
            uid = started_uid(op[1])
            if uid is None:
                continue
            st = scn.st[uid]
            if name == 'resolve':
                scn.resolve(uid)
            elif name == 'failfut':
                fut = st.get('hfut')
                if fut is not None and not fut.done():
                    world.ev(OTHER[st['spec']['side']], 'hfut_fail', uid=uid)
                    fut.set_exception(A.AppError('response %d failed' % uid))
            elif name == 'cancel' and st['spec']['k'] == 'rr':
                fut = st.get('fut')
                if fut is not None and not fut.done():
                    world.ev(st['spec']['side'], 'rr_cancel_call', uid=uid)
                    fut.cancel()
            else:
                dirn = op[2]
                if name == 'emit':
                    p = st['pub'].get(dirn)
                    if p is not None:
                        p.emit(op[3])
                elif name == 'end':
                    p = st['pub'].get(dirn)
                    if p is not None:
                        p.end()
                elif name == 'fail':
                    p = st['pub'].get(dirn)
                    if p is not None:
                        p.fail()
                elif name == 'req':
                    s = st['sub'].get(dirn)
                    if s is not None:
                        s.request(op[3])
                elif name == 'cancel':
                    s = st['sub'].get(dirn)
                    if s is not None:
                        s.cancel()
        elif name == 'lease':
            if lease_pub is not None:
                if op[1] == 'again':
                    lease_pub.publish_again()
                else:
                    lease_pub.publish(op[1], op[2])
        elif name == 'call':
            fn = (program.get('_actions') or {}).get(op[1])
            if fn is not None:
                r = fn(scn, *op[2:])
                if asyncio.iscoroutine(r):
                    await r
        elif name == 'blackhole':
            world.ev('net', 'blackhole', link=op[1])
            conn.link[op[1]].blackhole = True
        elif name == 'writefail':
            # a half-open connection: from now on this side's writes fail, its read side stays as it is (no error, no EOF)
            world.ev('net', 'writefail', link=op[1])
            w = conn.writer[op[1]]
            w.fail_writes = True
            w.unblock()
        elif name == 'reconnect':
            if 'c' in scn.sock:
                world.ev('c', 'reconnect_call')
                await scn.sock['c'].reconnect()
        elif name == 'await_connect':
            if connect_task is not None:
                await connect_task
        elif name == 'rawframe':
            if scn.raw is not None:
                scn.raw.send_value(op[1])
        elif name == 'rawbody':
            if scn.raw is not None:
                scn.raw.send_body(op[1])
        elif name == 'rawbytes':
            if scn.raw is not None and not conn.message_mode:
                scn.raw.send_raw_bytes(op[1])
        elif name == 'rawreq':
            if scn.raw is not None:
                scn.raw_request(next_start[0], op[1] if len(op) > 1 else None)
                next_start[0] += 1
        elif name == 'rawreuse':
            # the raw peer sends a new request frame on the id of a (possibly live) interaction it opened earlier
            raw = scn.raw
            if raw is not None:
                uid = started_uid(op[1])
                if uid is not None and scn.st[uid]['sid']:
                    t = {'rr': 'REQUEST_RESPONSE', 'fnf': 'REQUEST_FNF', 'st': 'REQUEST_STREAM', 'ch': 'REQUEST_CHANNEL'}[op[2]]
                    v = {'type': t, 'sid': scn.st[uid]['sid'], 'data': b'reuse', 'metadata': None}
                    if op[2] in ('st', 'ch'):
                        v['n'] = 3
                    world.ev(raw.side, 'raw_reuse', uid=uid, k=op[2], sid=v['sid'])
                    raw.send_value(v)
        elif name == 'rawf':
            if scn.raw is not None:
                uid = started_uid(op[1])
                if uid is not None:
                    scn.raw_stream_frame(uid, op[2], op[3] if len(op) > 3 else None)
        elif name == 'cut':
            state['faulted'] = True
            world.ev('net', 'cut', mode=op[1])
            conn.cut(op[1])
        elif name == 'halfclose':
            # the peer of `side` shuts down its sending direction (orderly FIN): `side` reads EOF, its own writes are not failed
            state['faulted'] = True
            world.ev('net', 'cut', mode='halfclose', at=op[1])
            conn.link[{'c': 's', 's': 'c'}[op[1]]].cut('eof')
        elif name == 'close':
            state['faulted'] = True
            world.ev(op[1], 'close_call')
            try:
                await scn.sock[op[1]].close()
            except Exception as e:
                is_repo, sig = repo_exception_sig(e)
                # close() let an exception out (for example the application's cancel() raising inside the sweep): the run goes
                # on, what the aborted cleanup left behind is for the monitors to judge
                world.ev(op[1], 'close_raised', exc=repr(e)[:200])
            world.ev(op[1], 'close_returned')
        else:
            raise HarnessError('unknown op %r' % (op,))

    quiet = True
    if program.get('heal', True):
        regime['mode'] = 'pumped'
        conn.set_auto(True)
        conn.unblock('c')
        conn.unblock('s')

        quiet = False
        stale = 0
        if lease_pub is not None and program.get('heal_lease', True):
            await simnet.run_until_quiet(loop, [conn])
            lease_pub.publish(1000000, 100000000)
        for rnd in range(400):
            ok = await simnet.run_until_quiet(loop, [conn])
            before = getattr(world, 'progress', 0)
            progressed = False
            if not state['faulted'] or program.get('heal_after_fault'):
                for uid in list(scn.started):
                    st = scn.st[uid]
                    for dirn, p in st['pub'].items():
                        if p.can_emit():
                            p.emit(4)
                            progressed = True
                        elif p.remaining() == 0 and p.can_end():
                            p.end()
                            progressed = True
                    if st['spec']['k'] == 'rr' and st['spec'].get('resp', {}).get('mode') == 'manual':
                        if scn.resolve(uid):
                            progressed = True
                    for dirn, s in st['sub'].items():
                        if (not s.terminal and not s.cancelled and s.subscription is not None
                                and s.requested < MAXN and program.get('heal_credit', True)):
                            s.request(MAXN)
                            progressed = True
            if not progressed:
                # let delayed callbacks (late futures, awaits in async generators) fire
                await asyncio.sleep(0.05)
                await simnet.run_until_quiet(loop, [conn])
                if getattr(world, 'progress', 0) == before:
                    stale += 1
                    if stale >= 2:
                        quiet = ok
                        break
                else:
                    stale = 0
            else:
                stale = 0

    world.frozen = True
    tr = Trace()
    tr.world = world
    tr.scn = scn
    tr.conn = conn
    tr.quiet = quiet
    tr.faulted = state['faulted'] or any(e['ev'] == 'cut' for e in world.log if e['side'] == 'net')
    tr.loop_errors = list(loop.errors)
    tr.final = {}
    for side, sock in scn.sock.items():
        sc = getattr(sock, '_stream_control', None)
        cache = getattr(sock, '_frame_fragment_cache', None)
        if sc is None or not hasattr(sc, '_streams') or cache is None or not hasattr(cache, '_frames_by_stream_id'):
            raise HarnessError('stream table / reassembly cache not observable')
        tr.final[side] = {
            'streams': sorted(sc._streams.keys()),
            'frags': sorted(cache._frames_by_stream_id.keys()),
            'sendq': sock._send_queue.qsize(),
            'sender_done': sock._sender_task is None or sock._sender_task.done(),
            'receiver_done': sock._receiver_task is None or sock._receiver_task.done(),
            'keepalive_done': getattr(sock, '_keepalive_task', None) is None or sock._keepalive_task.done(),
            'state': summarise_state(sock),
        }
    if observe is not None:
        await observe(tr)
    return tr


def summarise_state(obj, depth=2):
    """Structural summary of an endpoint's instance state: scalars by value, containers by size, futures / tasks / events by
    their state, library objects one level down, everything else by type. Used to compare a reconnected client with what a
    freshly connected one looked like (whatever is not reset shows up as a difference, whichever attribute it lives in)."""
    import asyncio as aio
    import collections

    def names(o):
        out = set(getattr(o, '__dict__', {}).keys())
        for klass in type(o).__mro__:
            slots = getattr(klass, '__slots__', ()) or ()
            out.update((slots,) if isinstance(slots, str) else slots)
        return sorted(n for n in out if isinstance(n, str) and not n.startswith('__'))

    def summ(v, d):
        if v is None or isinstance(v, (bool, int, str)):
            return v
        if isinstance(v, float):
            return 'float'
        if isinstance(v, (bytes, bytearray)):
            return ['bytes', len(v)]
        if isinstance(v, aio.Queue):
            return ['Queue', v.qsize(), v.maxsize]
        if isinstance(v, (list, tuple, set, frozenset, dict, collections.deque)):
            return [type(v).__name__, len(v)]
        if isinstance(v, aio.Task):
            return ['Task', 'done' if v.done() else 'pending']
        if isinstance(v, aio.Future):
            return ['Future', 'done' if v.done() else 'pending']
        if isinstance(v, aio.Event):
            return ['Event', v.is_set()]
        mod = type(v).__module__ or ''
        if d > 0 and (mod.startswith('rsocket') or mod.startswith('reactivestreams')) and 'transport' not in mod and 'Handler' not in type(v).__name__:
            try:
                if hasattr(v, 'qsize'):
                    return [type(v).__name__, v.qsize()]
            except Exception:
                pass
            return {'<type>': type(v).__name__, **{n: summ(getattr(v, n, '<unset>'), d - 1) for n in names(v)}}
        return '<%s>' % type(v).__name__

    return {n: summ(getattr(obj, n, '<unset>'), depth) for n in names(obj)}


def _case_alarm(signum, frame):
    raise CaseTimeout()


def run_program(program, observe=None, timeout=None):
    import signal
    timeout = timeout or int(os.environ.get('VERIF_CASE_TIMEOUT', '120'))
    A.EXC_STYLE[0] = (program.get('cfg') or {}).get('exc_style', 'str')
    try:
        old = signal.signal(signal.SIGALRM, _case_alarm)
    except ValueError:  # not in the main thread
        return run_case(_execute, program, observe)
    signal.alarm(timeout)
    try:
        return run_case(_execute, program, observe)
    except CaseTimeout:
        raise
    finally:
        signal.alarm(0)
        signal.signal(signal.SIGALRM, old)
