"""SimNet: real RSocket endpoints on a harness-owned network.

* Link          one direction of a connection; bytes (or whole messages) move only when the driver says so
* FakeWriter    asyncio.StreamWriter stand-in: write() appends to the link, drain() waits for a harness gate
* tap classes   subclasses of the repo's TransportTCP / AbstractMessagingTransport that log every frame handed to
                send_frame and every frame yielded by next_frame_generator
* World         global sequence numbers, virtual time, event log
"""
import asyncio
import collections

from harness import refcodec
from harness.common import CaseTimeout, HarnessError

MAXN = 0x7FFFFFFF


def note_wire(e, body):
    """Decode what was actually written with the reference codec; the wire is the truth for flags that the library
    only fixes while serializing (next). A disagreement with the snapshot is recorded, not raised."""
    try:
        w = refcodec.decode(body)
    except refcodec.RefDecodeError as ex:
        e['wire_error'] = str(ex)
        return
    f = e['f']
    e['w'] = w
    mism = []
    if w['type'] != f['type'] or w['sid'] != f['sid']:
        mism.append('header')
    for k in ('data', 'metadata'):
        if k in w and (w.get(k) or b'') != (f.get(k) or b''):
            mism.append(k)
    for k in ('follows', 'complete', 'n', 'code', 'respond', 'ttl', 'count'):
        if k in w and k in f and f[k] is not None and w[k] != f[k]:
            mism.append(k)
    if mism:
        e['wire_mismatch'] = mism
    if 'next' in w:
        f['next'] = w['next']


def snap_frame(frame):
    """Snapshot of a repo Frame object (taken at the moment it crosses the transport boundary)."""
    ft = getattr(frame, 'frame_type', None)
    if ft is None:
        return {'type': 'INVALID', 'sid': None}
    s = {'type': ft.name, 'sid': frame.stream_id}
    g = getattr
    s['follows'] = bool(g(frame, 'flags_follows', False))
    s['complete'] = bool(g(frame, 'flags_complete', False))
    s['next'] = bool(g(frame, 'flags_next', False))
    s['ignore'] = bool(g(frame, 'flags_ignore', False))
    data = g(frame, 'data', None)
    md = g(frame, 'metadata', None)
    s['data'] = bytes(data) if data else b''
    s['metadata'] = bytes(md) if md else b''
    name = ft.name
    if name in ('REQUEST_STREAM', 'REQUEST_CHANNEL'):
        s['n'] = g(frame, 'initial_request_n', None)
    elif name == 'REQUEST_N':
        s['n'] = g(frame, 'request_n', None)
    elif name == 'ERROR':
        code = g(frame, 'error_code', None)
        s['code'] = int(code) if code is not None else None
    elif name == 'KEEPALIVE':
        s['respond'] = bool(g(frame, 'flags_respond', False))
        s['position'] = g(frame, 'last_received_position', 0)
    elif name == 'LEASE':
        s['ttl'] = g(frame, 'time_to_live', None)
        s['count'] = g(frame, 'number_of_requests', None)
    elif name == 'SETUP':
        s['lease'] = bool(g(frame, 'flags_lease', False))
        s['resume'] = bool(g(frame, 'flags_resume', False))
        s['keepalive'] = g(frame, 'keep_alive_milliseconds', None)
        s['lifetime'] = g(frame, 'max_lifetime_milliseconds', None)
        s['data_mime'] = g(frame, 'data_encoding', None)
        s['metadata_mime'] = g(frame, 'metadata_encoding', None)
        s['major'] = g(frame, 'major_version', None)
        s['minor'] = g(frame, 'minor_version', None)
    return s


class World:
    def __init__(self, loop):
        self.loop = loop
        self.seq = 0
        self.log = []  # every event, in global order
        self.wire = {}  # side -> list of send events (same dict objects as in log)
        self.recv = {}  # side -> list of recv events
        self.app = []  # application-level events
        self.last_recv_sid = {}
        self.sid_map = {}  # (requester side, sid) -> uid issued last with that id
        self.sid_queue = {}  # (requester side, sid) -> uids in issue order, consumed by the responder's handler calls
        self.frozen = False  # set when the trace is taken: later events (cleanup) are not part of the run
        self.cur_cx = 0
        self.last_recv_cx = {}

    def bind(self, side, sid, uid):
        self.sid_map[(side, sid)] = uid
        self.sid_queue.setdefault((side, sid), []).append([uid, self.cur_cx, False])

    def unbind(self, side, sid, uid):
        """The interaction will never send its request (a publisher dropped without being subscribed to): it must not be taken
        for a later request that re-uses the id."""
        for ent in self.sid_queue.get((side, sid)) or []:
            if ent[0] == uid and not ent[2]:
                ent[2] = True

    def take(self, side, sid, cx):
        """The interaction a request received on (requester side, sid) over connection cx belongs to: ids are reused
        after wrap-around and after reconnects and frames may be delivered late, so it is the first not yet consumed
        interaction issued with that id on that connection (per-stream wire order is FIFO), else the latest one issued
        on an earlier connection (a request made while the reconnect was in progress)."""
        q = self.sid_queue.get((side, sid)) or []
        for ent in q:
            if not ent[2] and ent[1] == cx:
                ent[2] = True
                return ent[0]
        for ent in reversed(q):
            if not ent[2] and ent[1] < cx:
                ent[2] = True
                return ent[0]
        return None

    def ev(self, side, kind, **kw):
        if self.frozen:
            return {'seq': self.seq + 1, 't': self.loop.time(), 'side': side, 'ev': kind, 'after_trace': True}
        self.seq += 1
        # events other than keepalive traffic: what the heal phase of a program looks at to decide that nothing happens
        # any more (a connection with a short keepalive period never falls silent)
        if not ((kind in ('send', 'recv') and kw.get('f', {}).get('type') == 'KEEPALIVE') or
                (kind == 'queued' and kw.get('ftype') == 'KeepAliveFrame')):
            self.progress = getattr(self, 'progress', 0) + 1
        e = {'seq': self.seq, 't': self.loop.time(), 'side': side, 'ev': kind}
        e.update(kw)
        self.log.append(e)
        if kind == 'send':
            self.wire.setdefault(side, []).append(e)
        elif kind == 'recv':
            self.recv.setdefault(side, []).append(e)
        else:
            self.app.append(e)
        return e


class Link:
    """One direction of a connection."""

    def __init__(self, world, name, message_mode=False):
        self.world = world
        self.name = name
        self.message_mode = message_mode
        self.buf = bytearray()  # byte mode: written, not yet delivered
        self._held = []  # byte mode, link not pumped: objects written and not yet turned into bytes
        self.msgs = collections.deque()  # message mode
        self.written = 0
        self.delivered = 0
        self.cut_mode = None  # None, 'eof', 'error'
        self.sender_closed = False
        self.eof_sent = False
        self.sink = None  # receiving side: object with feed(bytes) (byte mode) or feed_message (coroutine)
        self.drop_writes = False
        self.history = bytearray()  # everything ever written (byte mode), for decoding by monitors
        self.msg_history = []
        self.cut_after = None  # fault injection: cut the connection once this many bytes (messages) were delivered
        self.cut_after_mode = 'eof'
        self.on_cut_after = None
        self.delivered_msgs = 0
        self.blackhole = False  # silently drops everything written from now on (a peer that went quiet)
        self.auto = False  # pumped regime: whatever is written is delivered on the next loop iteration
        self._auto_scheduled = False

    # sender side
    def write(self, data: bytes):
        if self.cut_mode is not None or self.sender_closed:
            return False
        if self.blackhole:
            return True
        self.written += len(data)
        if self.message_mode:
            self.msgs.append(bytes(data))
            self.msg_history.append(bytes(data))
        elif self.auto:
            # a writable socket: the bytes leave the process at once
            self._materialise()
            self.buf += data
            self.history += data
        else:
            # a socket that is not writable: asyncio's transport keeps the object it was given until it can send it
            self._held.append(data)
        if self.auto:
            self.schedule_auto()
        return True

    def _materialise(self):
        if self._held:
            for obj in self._held:
                b = bytes(obj)
                self.buf += b
                self.history += b
            self._held.clear()

    def schedule_auto(self):
        if not self._auto_scheduled and self.sink is not None:
            self._auto_scheduled = True
            self.world.loop.call_soon(self._auto_deliver)

    def _auto_deliver(self):
        self._auto_scheduled = False
        if not self.auto:
            return
        if self.message_mode:
            asyncio.ensure_future(self.deliver_messages())
        else:
            self.deliver_bytes()

    def pending(self):
        self._materialise()
        return len(self.msgs) if self.message_mode else len(self.buf)

    # network
    def deliver_bytes(self, n=None):
        """Byte mode: move up to n pending bytes to the receiver. Returns the number moved."""
        if self.message_mode:
            raise HarnessError('deliver_bytes on a message link')
        self._materialise()
        if self.cut_mode is not None:
            self.buf.clear()
            return 0
        if n is None or n > len(self.buf):
            n = len(self.buf)
        trip = False
        if self.cut_after is not None and self.delivered + n >= self.cut_after:
            n = max(0, self.cut_after - self.delivered)
            trip = True
        if n > 0:
            chunk = bytes(self.buf[:n])
            del self.buf[:n]
            self.delivered += n
            self.sink.feed(chunk)
        if trip:
            self.cut_after = None
            if self.on_cut_after is not None:
                self.on_cut_after(self.cut_after_mode)
            return n + 1
        if self.sender_closed and not self.buf and not self.eof_sent:
            self.eof_sent = True
            self.sink.feed_eof()
            return n + 1
        return n

    async def deliver_messages(self, k=None):
        if not self.message_mode:
            raise HarnessError('deliver_messages on a byte link')
        if self.cut_mode is not None:
            self.msgs.clear()
            return 0
        count = 0
        while self.msgs and (k is None or count < k):
            if self.cut_after is not None and self.delivered_msgs >= self.cut_after:
                self.cut_after = None
                if self.on_cut_after is not None:
                    self.on_cut_after(self.cut_after_mode)
                return count + 1
            msg = self.msgs.popleft()
            self.delivered += len(msg)
            self.delivered_msgs += 1
            count += 1
            await self.sink.feed_message(msg)
            if self.cut_after is not None and self.delivered_msgs >= self.cut_after:
                self.cut_after = None
                if self.on_cut_after is not None:
                    self.on_cut_after(self.cut_after_mode)
                return count + 1
        if self.cut_after == 0:
            self.cut_after = None
            if self.on_cut_after is not None:
                self.on_cut_after(self.cut_after_mode)
            return count + 1
        if self.sender_closed and not self.msgs and not self.eof_sent and self.sink is not None:
            # the sending endpoint closed its transport: the receiving side's message loop ends (modelled, like a cut, as
            # the transport reporting the end of the connection)
            self.eof_sent = True
            self.sink.feed_eof()
            return count + 1
        return count

    def cut(self, mode):
        """The link fails now: pending bytes are lost, the receiver sees EOF or a transport error."""
        if self.cut_mode is not None:
            return
        self.cut_mode = mode
        self._held.clear()
        self.buf.clear()
        self.msgs.clear()
        if self.sink is not None:
            if mode == 'eof':
                if not self.eof_sent:
                    self.eof_sent = True
                    self.sink.feed_eof()
            else:
                self.sink.feed_error(mode)


ERROR_MODES = ('error', 'etimedout', 'ehostunreach', 'epipe')


def transport_exception(mode):
    """What the read side of a lost connection raises, by failure mode (asyncio hands the OSError through)."""
    import errno
    if mode == 'etimedout':
        return TimeoutError(errno.ETIMEDOUT, 'simnet: connection timed out')
    if mode == 'ehostunreach':
        return OSError(errno.EHOSTUNREACH, 'simnet: no route to host')
    if mode == 'epipe':
        return BrokenPipeError(errno.EPIPE, 'simnet: broken pipe')
    return ConnectionResetError('simnet: connection reset by peer')


class FakeWriter:
    """Stands in for asyncio.StreamWriter on the sending side of a byte link."""

    def __init__(self, world, side, link, own_reader_sink=None):
        self.world = world
        self.side = side
        self.link = link
        self.closed = False
        self.blocked = False
        self._gate = asyncio.Event()
        self._gate.set()
        self.fail_writes = False  # after a cut in 'error' mode the local writer raises too
        self.own_reader_sink = own_reader_sink
        self.writes = 0
        self.bytes_written = 0
        self.close_calls = 0
        self.capture = None
        self.reset = False  # the connection was lost with an error (not an orderly EOF)
        self.delay = 0.0

    def write(self, data):
        self.writes += 1
        self.bytes_written += len(data)
        if self.capture is not None:
            self.capture.append(bytes(data))
        if self.closed:
            return
        self.link.write(data)

    async def drain(self):
        if self.fail_writes:
            raise ConnectionResetError('simnet: connection reset')
        if self.delay:
            await asyncio.sleep(self.delay)  # a slow link: every write takes this much (virtual) time to drain
        while self.blocked:
            await self._gate.wait()
        if self.fail_writes:
            raise ConnectionResetError('simnet: connection reset')

    def block(self):
        self.blocked = True
        self._gate.clear()

    def unblock(self):
        self.blocked = False
        self._gate.set()

    def close(self):
        self.close_calls += 1
        if self.closed:
            return
        self.closed = True
        self.world.ev(self.side, 'transport_close')
        self.link.sender_closed = True
        if self.link.auto:
            self.link.schedule_auto()
        if self.own_reader_sink is not None:
            self.own_reader_sink.feed_eof()
        self.unblock()

    async def wait_closed(self):
        # asyncio.StreamWriter.wait_closed() re-raises the exception the connection was lost with
        if self.reset:
            raise ConnectionResetError('simnet: connection was reset')
        return

    def is_closing(self):
        return self.closed

    def get_extra_info(self, name, default=None):
        return default


class ReaderSink:
    """Feeds an asyncio.StreamReader."""

    def __init__(self, reader):
        self.reader = reader
        self.eof = False
        self.failed = False

    def feed(self, chunk):
        if not self.eof and not self.failed:
            self.reader.feed_data(chunk)

    def feed_eof(self):
        if not self.eof and not self.failed:
            self.eof = True
            self.reader.feed_eof()

    def feed_error(self, mode='error'):
        if not self.failed and not self.eof:
            self.failed = True
            self.reader.set_exception(transport_exception(mode))


_classes = {}


def transport_classes():
    """Tap subclasses of the repo's transports (built lazily so that the repo import path is already set)."""
    if _classes:
        return _classes
    from rsocket.transports.tcp import TransportTCP
    from rsocket.transports.abstract_messaging import AbstractMessagingTransport
    from rsocket.exceptions import RSocketTransportError
    from rsocket.helpers import wrap_transport_exception

    class BoundedParser:
        """The transport's FrameParser behind a counter: no chunk of n bytes holds more than n frames, so a decoder that
        keeps producing is stuck in a loop (it would otherwise fill the memory long before a wall-clock guard fires)."""

        def __init__(self, inner):
            self._inner = inner

        def __getattr__(self, name):
            return getattr(self._inner, name)

        async def receive_data(self, data, header_length=3):
            n = 0
            async for frame in self._inner.receive_data(data, header_length):
                n += 1
                if n > len(data) + 16:
                    raise CaseTimeout('decoder produced %d frames from %d bytes' % (n, len(data)))
                yield frame

    class TapMixin:
        def _tap_init(self, world, side):
            if hasattr(self, '_frame_parser'):
                self._frame_parser = BoundedParser(self._frame_parser)
            self.world = world
            self.side = side
            self.connect_script = None  # None or ('ticks', k) / ('time', seconds)
            self.closed_calls = 0
            self.cx = 0  # index of the connection this transport belongs to

        async def connect(self):
            self.world.ev(self.side, 'transport_connect_begin', cx=self.cx)
            cs = self.connect_script
            if cs is not None:
                if cs[0] == 'ticks':
                    for _ in range(cs[1]):
                        await asyncio.sleep(0)
                elif cs[0] == 'time':
                    await asyncio.sleep(cs[1])
            self.world.ev(self.side, 'transport_connect_end', cx=self.cx)

        async def _slow_close(self):
            # closing a real transport takes a while (TLS shutdown, websocket close handshake): close_ticks loop iterations
            for _ in range(getattr(self, 'close_ticks', 0) or 0):
                await asyncio.sleep(0)
            self.world.ev(self.side, 'transport_close_done', cx=self.cx)

        async def _tap_gen(self, gen):
            async for frame in gen:
                s = snap_frame(frame)
                self.world.last_recv_sid[self.side] = s['sid']
                self.world.last_recv_cx[self.side] = self.cx
                self.world.ev(self.side, 'recv', f=s, cx=self.cx)
                yield frame

    class TapTCP(TapMixin, TransportTCP):
        def __init__(self, world, side, reader, writer, read_buffer_size):
            TransportTCP.__init__(self, reader, writer, read_buffer_size=read_buffer_size)
            self._tap_init(world, side)

        async def send_frame(self, frame):
            pos = self._writer.bytes_written
            e = self.world.ev(self.side, 'send', f=snap_frame(frame), tr=id(self), cx=self.cx)
            self._writer.capture = cap = []
            try:
                await TransportTCP.send_frame(self, frame)
            finally:
                self._writer.capture = None
                raw = b''.join(cap)
                e['wire_len'] = len(raw)
                if len(raw) >= 3:
                    if int.from_bytes(raw[:3], 'big') != len(raw) - 3:
                        e['wire_mismatch'] = ['length_prefix']
                    note_wire(e, raw[3:])
            e['sent'] = True

        async def next_frame_generator(self):
            gen = await TransportTCP.next_frame_generator(self)
            if gen is None:
                self.world.ev(self.side, 'recv_eof')
                return None
            return self._tap_gen(gen)

        async def close(self):
            self.closed_calls += 1
            self.world.ev(self.side, 'transport_close_call', cx=self.cx)
            await TransportTCP.close(self)
            await self._slow_close()

    class TapMsg(TapMixin, AbstractMessagingTransport):
        """Does what the aiohttp/quart/websockets transports do: one serialized frame per message out, one
        FrameParser.receive_data(message, 0) per message in, an exception object queued on failure."""

        def __init__(self, world, side, out_link):
            AbstractMessagingTransport.__init__(self)
            self._tap_init(world, side)
            self.out_link = out_link
            self.blocked = False
            self._gate = asyncio.Event()
            self._gate.set()
            self.fail_writes = False
            self.closed = False
            self.bytes_written = 0
            self.delay = 0.0

        async def send_frame(self, frame):
            e = self.world.ev(self.side, 'send', f=snap_frame(frame), tr=id(self), cx=self.cx)
            with wrap_transport_exception():
                if self.fail_writes or self.closed:
                    raise ConnectionResetError('simnet: websocket closed')
                data = frame.serialize()
                e['wire_len'] = len(data)
                note_wire(e, data)
                if self.delay:
                    await asyncio.sleep(self.delay)
                while self.blocked:
                    await self._gate.wait()
                if self.fail_writes or self.closed:
                    raise ConnectionResetError('simnet: websocket closed')
                self.out_link.write(data)
                self.bytes_written += len(data)
                e['sent'] = True

        def block(self):
            self.blocked = True
            self._gate.clear()

        def unblock(self):
            self.blocked = False
            self._gate.set()

        async def next_frame_generator(self):
            gen = await AbstractMessagingTransport.next_frame_generator(self)
            return self._tap_gen(gen)

        async def close(self):
            self.closed_calls += 1
            self.world.ev(self.side, 'transport_close_call', cx=self.cx)
            if not self.closed:
                self.closed = True
                self.world.ev(self.side, 'transport_close')
                self.out_link.sender_closed = True
                if self.out_link.auto:
                    self.out_link.schedule_auto()
                self.unblock()
            await self._slow_close()

        # sink interface for the incoming link
        async def feed_message(self, msg):
            try:
                async for frame in self._frame_parser.receive_data(msg, 0):
                    self._incoming_frame_queue.put_nowait(frame)
            except Exception as e:
                # what the aiohttp client transport does when its message loop fails
                self.world.ev(self.side, 'transport_parse_failure', exc=repr(e))
                self._incoming_frame_queue.put_nowait(RSocketTransportError())

        def feed_eof(self):
            self.feed_error()

        def feed_error(self, mode='error'):
            self._incoming_frame_queue.put_nowait(RSocketTransportError())

    _classes.update(TapTCP=TapTCP, TapMsg=TapMsg)
    return _classes


class Conn:
    """A connection between side 'c' and side 's': two links and two tapped transports."""

    def __init__(self, world, message_mode=False, read_buffer=(1024, 1024), names=('c', 's'), index=0):
        self.world = world
        self.index = index
        self.message_mode = message_mode
        a, b = names
        self.names = names
        self.link = {a: Link(world, a + '>' + b, message_mode), b: Link(world, b + '>' + a, message_mode)}
        cls = transport_classes()
        self.transport = {}
        self.writer = {}
        if message_mode:
            for me, peer in ((a, b), (b, a)):
                tr = cls['TapMsg'](world, me, self.link[me])
                self.transport[me] = tr
                self.writer[me] = tr
            self.link[a].sink = self.transport[b]
            self.link[b].sink = self.transport[a]
        else:
            readers = {}
            sinks = {}
            for i, me in enumerate((a, b)):
                readers[me] = asyncio.StreamReader(limit=2 ** 26)
                sinks[me] = ReaderSink(readers[me])
            for i, (me, peer) in enumerate(((a, b), (b, a))):
                w = FakeWriter(world, me, self.link[me], own_reader_sink=sinks[me])
                self.writer[me] = w
                self.transport[me] = cls['TapTCP'](world, me, readers[me], w, read_buffer[i])
                self.link[me].sink = sinks[peer]

    def tag(self):
        for tr in self.transport.values():
            tr.cx = self.index

    def set_auto(self, on):
        for l in self.link.values():
            l.auto = on
            if on and l.pending():
                l.schedule_auto()

    def pending(self):
        return sum(l.pending() for l in self.link.values())

    async def pump(self):
        """Deliver everything pending in both directions. Returns True if anything moved."""
        moved = False
        for l in self.link.values():
            if self.message_mode:
                if await l.deliver_messages():
                    moved = True
            else:
                if l.deliver_bytes():
                    moved = True
        return moved

    def block(self, side):
        self.writer[side].block()

    def unblock(self, side):
        self.writer[side].unblock()

    def arm_cut(self, side, after, mode):
        l = self.link[side]
        l.cut_after = after
        l.cut_after_mode = mode

        def fire(m):
            self.world.ev('net', 'cut', mode=m, link=side, after=after)
            self.cut(m)

        l.on_cut_after = fire

    def cut(self, mode='eof', fail_writes=True):
        """Both directions fail at once (the link is cut)."""
        for side, l in self.link.items():
            l.cut(mode)
        if fail_writes:
            for w in self.writer.values():
                w.fail_writes = True
                if mode != 'eof':
                    w.reset = True
                w.unblock()


class ConnSet:
    """All connections of a run; attribute access goes to the current (latest) one, pump() moves bytes on all."""

    def __init__(self):
        self.conns = []
        self.auto = False

    @property
    def cur(self):
        return self.conns[-1]

    def __getattr__(self, name):
        return getattr(self.conns[-1], name)

    def set_auto(self, on):
        self.auto = on
        for c in self.conns:
            c.set_auto(on)

    async def pump(self):
        moved = False
        for c in self.conns:
            if await c.pump():
                moved = True
        return moved

    def pending(self):
        return sum(c.pending() for c in self.conns)


async def run_until_quiet(loop, conns, max_iters=5000):
    """Pumped regime: alternate ticks and full delivery until nothing is runnable and nothing is pending."""
    idle = 0
    for i in range(max_iters):
        await asyncio.sleep(0)
        moved = False
        for c in conns:
            if await c.pump():
                moved = True
        if loop.idle() and not moved:
            idle += 1
            if idle >= 2:
                return True
        else:
            idle = 0
    return False
