"""./check <id> [--tier quick|thorough] [--replay path]"""
import argparse
import importlib
import os
import sys
import time
import traceback


def main(argv=None):
    ap = argparse.ArgumentParser()
    ap.add_argument('pid')
    ap.add_argument('--tier', default=os.environ.get('VERIF_TIER', 'quick'), choices=['quick', 'thorough'])
    ap.add_argument('--replay', default=None)
    ap.add_argument('--seed', type=int, default=None)
    args = ap.parse_args(argv)
    seed = args.seed if args.seed is not None else int(os.environ.get('VERIF_SEED', '1') or '1')
    pid = args.pid.upper()
    try:
        from harness import common
        common.use_repo()
        mod = importlib.import_module('harness.checks.%s' % pid.lower())
        if args.replay:
            return mod.replay(args.replay)
        return mod.run(args.tier, seed)
    except SystemExit:
        raise
    except BaseException:
        sys.stdout.flush()
        sys.stderr.write('HARNESS-ERROR property=%s\n' % pid)
        traceback.print_exc()
        return 2


if __name__ == '__main__':
    sys.exit(main())
