"""Independent reference codec for RSocket 1.0 frames and the extension metadata formats.

Written from the protocol specification (frame layouts, composite metadata, routing, authentication, well-known
MIME and auth type tables); it imports nothing from the repository, so a bug in the repository's decoder cannot
hide a bug in its encoder and vice versa.

Frame values are plain dicts:
  type  : 'SETUP' | 'LEASE' | ... (names below)
  sid   : stream id 0..2^31-1
  ignore: bool
  metadata: bytes or None (None = metadata flag not set), data: bytes (b'' when absent)
  per type: follows, complete, next, respond, lease, resume, n, code, ttl, count, position, major, minor,
            keepalive, lifetime, token, metadata_mime, data_mime, last_server, first_client
"""
import struct

TYPES = {
    'SETUP': 0x01, 'LEASE': 0x02, 'KEEPALIVE': 0x03, 'REQUEST_RESPONSE': 0x04, 'REQUEST_FNF': 0x05,
    'REQUEST_STREAM': 0x06, 'REQUEST_CHANNEL': 0x07, 'REQUEST_N': 0x08, 'CANCEL': 0x09, 'PAYLOAD': 0x0A,
    'ERROR': 0x0B, 'METADATA_PUSH': 0x0C, 'RESUME': 0x0D, 'RESUME_OK': 0x0E,
}
TYPE_NAMES = {v: k for k, v in TYPES.items()}

F_IGNORE = 0x200
F_METADATA = 0x100
F_B7 = 0x80  # follows / resume / respond
F_B6 = 0x40  # complete / lease
F_B5 = 0x20  # next

ERROR_CODES = {
    'INVALID_SETUP': 0x001, 'UNSUPPORTED_SETUP': 0x002, 'REJECTED_SETUP': 0x003, 'REJECTED_RESUME': 0x004,
    'CONNECTION_ERROR': 0x101, 'CONNECTION_CLOSE': 0x102, 'APPLICATION_ERROR': 0x201, 'REJECTED': 0x202,
    'CANCELED': 0x203, 'INVALID': 0x204,
}

FRAGMENTABLE = ('PAYLOAD', 'REQUEST_RESPONSE', 'REQUEST_FNF', 'REQUEST_STREAM', 'REQUEST_CHANNEL')
REQUEST_TYPES = ('REQUEST_RESPONSE', 'REQUEST_FNF', 'REQUEST_STREAM', 'REQUEST_CHANNEL')


class RefDecodeError(Exception):
    pass


def u24(n):
    if not 0 <= n < (1 << 24):
        raise ValueError('24-bit length out of range')
    return struct.pack('>I', n)[1:]


def _meta_data(v, with_length=True):
    out = b''
    md = v.get('metadata')
    if md is not None:
        if with_length:
            out += u24(len(md))
        out += md
    out += v.get('data') or b''
    return out


def encode(v) -> bytes:
    t = v['type']
    code = TYPES[t]
    flags = 0
    if v.get('ignore'):
        flags |= F_IGNORE
    if v.get('metadata') is not None:
        flags |= F_METADATA
    body = b''
    if t == 'SETUP':
        if v.get('resume'):
            flags |= F_B7
        if v.get('lease'):
            flags |= F_B6
        body += struct.pack('>HHII', v.get('major', 1), v.get('minor', 0), v['keepalive'], v['lifetime'])
        if v.get('resume'):
            tok = v.get('token', b'')
            body += struct.pack('>H', len(tok)) + tok
        mm, dm = v['metadata_mime'], v['data_mime']
        body += bytes([len(mm)]) + mm + bytes([len(dm)]) + dm
        body += _meta_data(v)
    elif t == 'LEASE':
        body += struct.pack('>II', v['ttl'], v['count'])
        if v.get('metadata') is not None:
            body += v['metadata']
    elif t == 'KEEPALIVE':
        if v.get('respond'):
            flags |= F_B7
        body += struct.pack('>Q', v.get('position', 0))
        body += v.get('data') or b''
    elif t in ('REQUEST_RESPONSE', 'REQUEST_FNF'):
        if v.get('follows'):
            flags |= F_B7
        body += _meta_data(v)
    elif t == 'REQUEST_STREAM':
        if v.get('follows'):
            flags |= F_B7
        body += struct.pack('>I', v['n'])
        body += _meta_data(v)
    elif t == 'REQUEST_CHANNEL':
        if v.get('follows'):
            flags |= F_B7
        if v.get('complete'):
            flags |= F_B6
        body += struct.pack('>I', v['n'])
        body += _meta_data(v)
    elif t == 'REQUEST_N':
        body += struct.pack('>I', v['n'])
    elif t == 'CANCEL':
        pass
    elif t == 'PAYLOAD':
        if v.get('follows'):
            flags |= F_B7
        if v.get('complete'):
            flags |= F_B6
        if v.get('next'):
            flags |= F_B5
        body += _meta_data(v)
    elif t == 'ERROR':
        body += struct.pack('>I', v['code'])
        body += v.get('data') or b''
    elif t == 'METADATA_PUSH':
        if v.get('metadata') is not None:
            body += v['metadata']
    elif t == 'RESUME':
        tok = v.get('token', b'')
        body += struct.pack('>HHH', v.get('major', 1), v.get('minor', 0), len(tok)) + tok
        body += struct.pack('>QQ', v['last_server'], v['first_client'])
    elif t == 'RESUME_OK':
        body += struct.pack('>Q', v['position'])
    else:
        raise ValueError(t)
    sid = v.get('sid', 0)
    if not 0 <= sid <= 0x7FFFFFFF:
        raise ValueError('stream id out of range')
    return struct.pack('>IH', sid, (code << 10) | flags) + body


def frame_with_length(b: bytes) -> bytes:
    return u24(len(b)) + b


def _take_meta_data(v, b, off, has_meta, with_length=True):
    if has_meta:
        if with_length:
            if len(b) < off + 3:
                raise RefDecodeError('metadata length truncated')
            ln = int.from_bytes(b[off:off + 3], 'big')
            off += 3
            if len(b) < off + ln:
                raise RefDecodeError('metadata truncated')
            v['metadata'] = bytes(b[off:off + ln])
            off += ln
        else:
            v['metadata'] = bytes(b[off:])
            off = len(b)
    else:
        v['metadata'] = None
    v['data'] = bytes(b[off:])


def decode(b: bytes):
    if len(b) < 6:
        raise RefDecodeError('short frame')
    sid, tf = struct.unpack_from('>IH', b, 0)
    if sid & 0x80000000:
        sid &= 0x7FFFFFFF
    code = tf >> 10
    flags = tf & 0x3FF
    if code not in TYPE_NAMES:
        raise RefDecodeError('unknown type %d' % code)
    t = TYPE_NAMES[code]
    v = {'type': t, 'sid': sid, 'ignore': bool(flags & F_IGNORE)}
    has_meta = bool(flags & F_METADATA)
    off = 6
    try:
        if t == 'SETUP':
            v['resume'] = bool(flags & F_B7)
            v['lease'] = bool(flags & F_B6)
            v['major'], v['minor'], v['keepalive'], v['lifetime'] = struct.unpack_from('>HHII', b, off)
            off += 12
            if v['resume']:
                (ln,) = struct.unpack_from('>H', b, off)
                off += 2
                v['token'] = bytes(b[off:off + ln])
                if len(v['token']) != ln:
                    raise RefDecodeError('token truncated')
                off += ln
            ln = b[off]
            v['metadata_mime'] = bytes(b[off + 1:off + 1 + ln])
            off += 1 + ln
            ln = b[off]
            v['data_mime'] = bytes(b[off + 1:off + 1 + ln])
            off += 1 + ln
            _take_meta_data(v, b, off, has_meta)
        elif t == 'LEASE':
            v['ttl'], v['count'] = struct.unpack_from('>II', b, off)
            off += 8
            v['metadata'] = bytes(b[off:]) if has_meta else None
            v['data'] = b''
        elif t == 'KEEPALIVE':
            v['respond'] = bool(flags & F_B7)
            (v['position'],) = struct.unpack_from('>Q', b, off)
            off += 8
            v['metadata'] = None
            v['data'] = bytes(b[off:])
        elif t in ('REQUEST_RESPONSE', 'REQUEST_FNF'):
            v['follows'] = bool(flags & F_B7)
            _take_meta_data(v, b, off, has_meta)
        elif t == 'REQUEST_STREAM':
            v['follows'] = bool(flags & F_B7)
            (v['n'],) = struct.unpack_from('>I', b, off)
            _take_meta_data(v, b, off + 4, has_meta)
        elif t == 'REQUEST_CHANNEL':
            v['follows'] = bool(flags & F_B7)
            v['complete'] = bool(flags & F_B6)
            (v['n'],) = struct.unpack_from('>I', b, off)
            _take_meta_data(v, b, off + 4, has_meta)
        elif t == 'REQUEST_N':
            (v['n'],) = struct.unpack_from('>I', b, off)
        elif t == 'CANCEL':
            pass
        elif t == 'PAYLOAD':
            v['follows'] = bool(flags & F_B7)
            v['complete'] = bool(flags & F_B6)
            v['next'] = bool(flags & F_B5)
            _take_meta_data(v, b, off, has_meta)
        elif t == 'ERROR':
            (v['code'],) = struct.unpack_from('>I', b, off)
            v['metadata'] = None
            v['data'] = bytes(b[off + 4:])
        elif t == 'METADATA_PUSH':
            v['metadata'] = bytes(b[off:]) if has_meta else None
            v['data'] = b''
        elif t == 'RESUME':
            v['major'], v['minor'], ln = struct.unpack_from('>HHH', b, off)
            off += 6
            v['token'] = bytes(b[off:off + ln])
            if len(v['token']) != ln:
                raise RefDecodeError('token truncated')
            off += ln
            v['last_server'], v['first_client'] = struct.unpack_from('>QQ', b, off)
        elif t == 'RESUME_OK':
            (v['position'],) = struct.unpack_from('>Q', b, off)
    except (struct.error, IndexError) as e:
        raise RefDecodeError(str(e))
    return v


def split_stream(buf: bytes):
    """Split a length-prefixed byte stream into frame bodies; returns (bodies, rest)."""
    out = []
    off = 0
    while len(buf) - off >= 3:
        ln = int.from_bytes(buf[off:off + 3], 'big')
        if len(buf) - off - 3 < ln:
            break
        out.append(bytes(buf[off + 3:off + 3 + ln]))
        off += 3 + ln
    return out, bytes(buf[off:])


# ------------------------------------------------------------------------------------------- extensions (spec)

# Well-known MIME types, RSocket "WellKnownMimeType" extension registry (id -> name).
WELL_KNOWN_MIME = {
    0x00: 'application/avro', 0x01: 'application/cbor', 0x02: 'application/graphql', 0x03: 'application/gzip',
    0x04: 'application/javascript', 0x05: 'application/json', 0x06: 'application/octet-stream',
    0x07: 'application/pdf', 0x08: 'application/vnd.apache.thrift.binary', 0x09: 'application/vnd.google.protobuf',
    0x0A: 'application/xml', 0x0B: 'application/zip', 0x0C: 'audio/aac', 0x0D: 'audio/mp3', 0x0E: 'audio/mp4',
    0x0F: 'audio/mpeg3', 0x10: 'audio/mpeg', 0x11: 'audio/ogg', 0x12: 'audio/opus', 0x13: 'audio/vorbis',
    0x14: 'image/bmp', 0x15: 'image/gif', 0x16: 'image/heic-sequence', 0x17: 'image/heic', 0x18: 'image/heif-sequence',
    0x19: 'image/heif', 0x1A: 'image/jpeg', 0x1B: 'image/png', 0x1C: 'image/tiff', 0x1D: 'multipart/mixed',
    0x1E: 'text/css', 0x1F: 'text/csv', 0x20: 'text/html', 0x21: 'text/plain', 0x22: 'text/xml', 0x23: 'video/H264',
    0x24: 'video/H265', 0x25: 'video/VP8', 0x26: 'application/x-hessian', 0x27: 'application/x-java-object',
    0x28: 'application/cloudevents+json',
    0x7A: 'message/x.rsocket.mime-type.v0', 0x7B: 'message/x.rsocket.accept-mime-types.v0',
    0x7C: 'message/x.rsocket.authentication.v0', 0x7D: 'message/x.rsocket.tracing-zipkin.v0',
    0x7E: 'message/x.rsocket.routing.v0', 0x7F: 'message/x.rsocket.composite-metadata.v0',
}
WELL_KNOWN_MIME_BY_NAME = {v: k for k, v in WELL_KNOWN_MIME.items()}
WELL_KNOWN_AUTH = {0x00: 'simple', 0x01: 'bearer'}

MIME_ROUTING = 0x7E
MIME_AUTH = 0x7C
MIME_STREAM_MIME = 0x7A
MIME_ACCEPT_MIMES = 0x7B


def enc_mime_header(mime):
    """mime: int well-known id, or bytes custom name (1..128 bytes)."""
    if isinstance(mime, int):
        if not 0 <= mime <= 0x7F:
            raise ValueError('id')
        return bytes([0x80 | mime])
    if not 1 <= len(mime) <= 128:
        raise ValueError('custom mime length')
    return bytes([len(mime) - 1]) + mime


def enc_composite(entries):
    """entries: list of (mime, content bytes)."""
    out = b''
    for mime, content in entries:
        out += enc_mime_header(mime) + u24(len(content)) + content
    return out


def dec_composite(b):
    out = []
    off = 0
    while off < len(b):
        h = b[off]
        off += 1
        if h & 0x80:
            mime = h & 0x7F
        else:
            ln = (h & 0x7F) + 1
            mime = bytes(b[off:off + ln])
            if len(mime) != ln:
                raise RefDecodeError('mime truncated')
            off += ln
        if len(b) < off + 3:
            raise RefDecodeError('length truncated')
        ln = int.from_bytes(b[off:off + 3], 'big')
        off += 3
        content = bytes(b[off:off + ln])
        if len(content) != ln:
            raise RefDecodeError('content truncated')
        off += ln
        out.append((mime, content))
    return out


def enc_tags(tags):
    out = b''
    for t in tags:
        if len(t) > 255:
            raise ValueError('tag too long')
        out += bytes([len(t)]) + t
    return out


def dec_tags(b):
    out = []
    off = 0
    while off < len(b):
        ln = b[off]
        out.append(bytes(b[off + 1:off + 1 + ln]))
        off += 1 + ln
    return out


def enc_auth_simple(username, password):
    if len(username) > 0xFFFF:
        raise ValueError('username too long')
    return bytes([0x80 | 0x00]) + struct.pack('>H', len(username)) + username + password


def enc_auth_bearer(token):
    return bytes([0x80 | 0x01]) + token


def enc_mime_list(mimes):
    """accept-mime-types / stream mime-type content: sequence of mime headers without lengths."""
    return b''.join(enc_mime_header(m) for m in mimes)
