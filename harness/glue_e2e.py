"""Two real endpoints (RSocketClient / RSocketServer) joined through the repository's own websocket transports, the
websocket itself replaced by an in-memory pair (no network, no websocket library framing). Used by C01 to run request /
response correlation and payload integrity over the transport glue that the SimNet harness transport stands in for
elsewhere."""
import asyncio

CLIENT_GLUES = ('aiohttp_client', 'asyncwebsockets', 'websockets', 'http3')
SERVER_GLUES = ('aiohttp_server', 'quart', 'websockets', 'channels', 'http3')

_CLOSE = object()


class PairWS:
    """one end of an in-memory websocket; `kind` decides what message objects its reader is handed"""

    def __init__(self, kind):
        self.kind = kind
        self.inbox = asyncio.Queue()
        self.peer = None
        self.closed = False
        self.sent = 0

    def wrap(self, data):
        if self.kind in ('aiohttp_client', 'aiohttp_server'):
            import aiohttp
            return aiohttp.WSMessage(aiohttp.WSMsgType.BINARY, data, None)
        if self.kind == 'asyncwebsockets':
            from wsproto.events import BytesMessage
            return BytesMessage(data=data)
        return data

    def __aiter__(self):
        return self

    async def __anext__(self):
        item = await self.inbox.get()
        if item is _CLOSE:
            raise StopAsyncIteration
        return item

    async def receive(self):  # quart
        item = await self.inbox.get()
        if item is _CLOSE:
            raise asyncio.CancelledError()
        return item

    async def receive_bytes(self):  # http3 (starlette WebSocket / the transport's own ClientWebSocket)
        from starlette.websockets import WebSocketDisconnect
        item = await self.inbox.get()
        if item is _CLOSE:
            raise WebSocketDisconnect()
        return item

    async def _out(self, data):
        if self.closed or self.peer.closed:
            raise ConnectionResetError('pair websocket closed')
        self.sent += 1
        await asyncio.sleep(0)
        self.peer.inbox.put_nowait(self.peer.wrap(bytes(data)))

    async def send_bytes(self, data):
        await self._out(data)

    async def send(self, data=None, **kw):
        await self._out(data if data is not None else kw.get('bytes_data'))

    async def close(self, *a, **k):
        if not self.closed:
            self.closed = True
            self.peer.inbox.put_nowait(_CLOSE)
            self.inbox.put_nowait(_CLOSE)


def pair(client_kind, server_kind):
    a, b = PairWS(client_kind), PairWS(server_kind)
    a.peer, b.peer = b, a
    return a, b


def client_transport(kind, ws, tasks):
    from harness.glue import bound
    return bound(_client_transport(kind, ws, tasks))


def server_transport(kind, ws, tasks):
    from harness.glue import bound
    return bound(_server_transport(kind, ws, tasks))


def _client_transport(kind, ws, tasks):
    if kind == 'aiohttp_client':
        from rsocket.transports.aiohttp_websocket import TransportAioHttpClient
        return TransportAioHttpClient(websocket=ws)
    if kind == 'asyncwebsockets':
        from rsocket.transports.asyncwebsockets_transport import TransportAsyncWebsocketsClient
        return TransportAsyncWebsocketsClient(ws)
    if kind == 'websockets':
        from rsocket.transports.websockets_transport import WebsocketsTransport
        t = WebsocketsTransport()
        tasks.append(asyncio.ensure_future(t.handler(ws)))
        return t
    if kind == 'http3':
        from rsocket.transports.http3_transport import Http3TransportWebsocket
        return Http3TransportWebsocket(ws)
    raise ValueError(kind)


def _server_transport(kind, ws, tasks):
    if kind == 'http3':
        from rsocket.transports.http3_transport import Http3TransportWebsocket
        return Http3TransportWebsocket(ws)
    if kind == 'aiohttp_server':
        from rsocket.transports.aiohttp_websocket import TransportAioHttpWebsocket
        t = TransportAioHttpWebsocket(ws)
        tasks.append(asyncio.ensure_future(t.handle_incoming_ws_messages()))
        return t
    if kind == 'quart':
        import rsocket.transports.quart_websocket as qw
        qw.websocket = ws
        t = qw.TransportQuartWebsocket()
        tasks.append(asyncio.ensure_future(t.handle_incoming_ws_messages()))
        return t
    if kind == 'websockets':
        from rsocket.transports.websockets_transport import WebsocketsTransport
        t = WebsocketsTransport()
        tasks.append(asyncio.ensure_future(t.handler(ws)))
        return t
    if kind == 'channels':
        from rsocket.transports.channels_transport import AsyncRSocketConsumer, ChannelsTransport
        consumer = AsyncRSocketConsumer()
        consumer.send = ws.send
        t = ChannelsTransport(consumer)
        consumer.transport = t

        async def pump():
            while True:
                item = await ws.inbox.get()
                if item is _CLOSE:
                    return
                await consumer.receive(bytes_data=item)
        tasks.append(asyncio.ensure_future(pump()))
        return t
    raise ValueError(kind)


class FakeQuic:
    """Stands in for aioquic's QuicConnection under the repository's real RSocketQuicProtocol / RSocketQuicTransport: stream
    data written on one side is handed to the peer protocol as StreamDataReceived events, cut at `cuts` (a cycling list of
    chunk sizes; QUIC delivers a stream in pieces of its own choosing)."""

    def __init__(self, cuts=None):
        self.peer_protocol = None
        self.protocol = None
        self.cuts = list(cuts or [])
        self._k = 0
        self.closed = False
        self.sent_bytes = 0

    def get_next_available_stream_id(self):
        return 0

    def send_stream_data(self, stream_id, data, end_stream=False):
        from aioquic.quic.events import StreamDataReceived
        if self.closed:
            raise ConnectionResetError('quic stand-in closed')
        data = bytes(data)
        self.sent_bytes += len(data)
        loop = asyncio.get_event_loop()
        pos = 0
        while pos < len(data):
            n = len(data) - pos
            if self.cuts:
                n = max(1, min(n, self.cuts[self._k % len(self.cuts)]))
                self._k += 1
            chunk = data[pos:pos + n]
            pos += n
            loop.call_soon(self.peer_protocol.quic_event_received,
                           StreamDataReceived(data=chunk, end_stream=False, stream_id=stream_id))

    def datagrams_to_send(self, now):
        return []

    def get_timer(self):
        return None

    def close(self, error_code=0, reason_phrase=''):
        from aioquic.quic.events import ConnectionTerminated
        if self.closed:
            return
        self.closed = True
        self.protocol._closed.set()
        peer = self.peer_protocol
        if peer is not None and not peer._quic.closed:
            asyncio.get_event_loop().call_soon(peer.quic_event_received,
                                               ConnectionTerminated(error_code=0, frame_type=None, reason_phrase='peer closed'))


def quic_pair(cuts_a=None, cuts_b=None):
    """two real RSocketQuicProtocol objects joined through FakeQuic stand-ins; returns (protocol_a, protocol_b)"""
    from rsocket.transports.aioquic_transport import RSocketQuicProtocol
    qa, qb = FakeQuic(cuts_a), FakeQuic(cuts_b)
    pa, pb = RSocketQuicProtocol(qa), RSocketQuicProtocol(qb)
    qa.protocol, qb.protocol = pa, pb
    qa.peer_protocol, qb.peer_protocol = pb, pa
    pa._connected = pb._connected = True
    return pa, pb


def body(tag, i, n):
    """n bytes that say which request they belong to"""
    seed = ('%s%d|' % (tag, i)).encode()
    return (seed * (n // len(seed) + 1))[:n]


async def run(loop, case):
    """case: {'client': kind, 'server': kind, 'frag': None|int, 'reqs': [[kind, a, b], ...], 'concurrent': bool}
    -> {'results': [...], 'fnf': [...], 'errors': [...]}"""
    from rsocket.awaitable.awaitable_rsocket import AwaitableRSocket
    from rsocket.helpers import create_future, single_transport_provider
    from rsocket.payload import Payload
    from rsocket.request_handler import BaseRequestHandler
    from rsocket.rsocket_client import RSocketClient
    from rsocket.rsocket_server import RSocketServer
    from rsocket.streams.stream_from_generator import StreamFromGenerator

    seen = {'fnf': [], 'mp': []}

    class Handler(BaseRequestHandler):
        async def request_response(self, payload):
            return create_future(Payload(b'R:' + bytes(payload.data or b''), bytes(payload.metadata or b'')[::-1]))

        async def request_fire_and_forget(self, payload):
            seen['fnf'].append((bytes(payload.data or b''), bytes(payload.metadata or b'')))

        async def on_metadata_push(self, payload):
            seen['mp'].append(bytes(payload.metadata or b''))

        async def request_stream(self, payload):
            d = bytes(payload.data or b'')
            n, size = d[0], d[1] * 4

            def gen():
                for i in range(n):
                    yield Payload(body('el', i, size) + d[2:10], bytes([i])), i == n - 1
            return StreamFromGenerator(gen)

    tasks = []
    if case['client'] == 'aioquic':
        from rsocket.transports.aioquic_transport import RSocketQuicTransport
        pa, pb = quic_pair(case.get('cuts'), case.get('cuts'))
        wa = None
        from harness.glue import bound
        server = RSocketServer(bound(RSocketQuicTransport(pb)), handler_factory=Handler, fragment_size_bytes=case['frag'])
        client = RSocketClient(single_transport_provider(bound(RSocketQuicTransport(pa))), fragment_size_bytes=case['frag'])
    else:
        wa, wb = pair(case['client'], case['server'])
        server = RSocketServer(server_transport(case['server'], wb, tasks), handler_factory=Handler,
                               fragment_size_bytes=case['frag'])
        client = RSocketClient(single_transport_provider(client_transport(case['client'], wa, tasks)),
                               fragment_size_bytes=case['frag'])
    out = {'results': [], 'errors': []}
    await client.connect()
    ar = AwaitableRSocket(client)

    async def one(i, r):
        k = r[0]
        try:
            if k == 'rr':
                p = await ar.request_response(Payload(body('rr', i, r[1]), body('m', i, r[2])))
                return ['rr', bytes(p.data or b''), bytes(p.metadata or b'')]
            if k == 'fnf':
                await ar.fire_and_forget(Payload(body('ff', i, r[1]), body('m', i, r[2])))
                return ['fnf']
            if k == 'mp':
                await ar.metadata_push(body('mp', i, max(1, r[1])))
                return ['mp']
            if k == 'st':
                els = await ar.request_stream(Payload(bytes([r[1], r[2]]) + body('s', i, 8)))
                return ['st'] + [[bytes(e.data or b''), bytes(e.metadata or b'')] for e in els]
        except Exception as e:  # the outcome is data for the oracle
            return ['raised', type(e).__name__, str(e)[:80]]

    async def bounded(i, r):
        # (virtual time: a request that never gets its outcome ends here instead of blocking the run)
        try:
            return await asyncio.wait_for(one(i, r), 30.0)
        except asyncio.TimeoutError:
            return ['raised', 'NoOutcome', 'no outcome within 30 s of virtual time']

    if case.get('concurrent'):
        out['results'] = list(await asyncio.gather(*[bounded(i, r) for i, r in enumerate(case['reqs'])]))
    else:
        for i, r in enumerate(case['reqs']):
            out['results'].append(await bounded(i, r))
    # one-way requests are "sent" once they were handed to the transport, and some transports only queue them: let
    # everything that is runnable run (virtual time moves only when the loop is idle)
    for _ in range(5):
        await asyncio.sleep(0.05)
    out['fnf'] = list(seen['fnf'])
    out['mp'] = list(seen['mp'])
    try:
        await asyncio.wait_for(client.close(), 30.0)
    except Exception as e:
        out['errors'].append('client.close: %r' % (e,))
    try:
        await asyncio.wait_for(server.close(), 30.0)
    except Exception as e:
        out['errors'].append('server.close: %r' % (e,))
    if wa is not None:
        await wa.close()
    for t in tasks:
        t.cancel()
    for t in tasks:
        try:
            await t
        except BaseException:
            pass
    out['loop_errors'] = [dict(e) for e in getattr(loop, 'errors', [])]
    return out


def expected(case):
    res = []
    fnf = []
    mp = []
    for i, r in enumerate(case['reqs']):
        k = r[0]
        if k == 'rr':
            res.append(['rr', b'R:' + body('rr', i, r[1]), body('m', i, r[2])[::-1]])
        elif k == 'fnf':
            res.append(['fnf'])
            fnf.append((body('ff', i, r[1]), body('m', i, r[2])))
        elif k == 'mp':
            res.append(['mp'])
            mp.append(body('mp', i, max(1, r[1])))
        elif k == 'st':
            n, size = r[1], r[2] * 4
            tail = (bytes([r[1], r[2]]) + body('s', i, 8))[2:10]
            res.append(['st'] + [[body('el', j, size) + tail, bytes([j])] for j in range(n)])
    return res, fnf, mp
