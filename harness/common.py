"""Shared runner machinery: repo import path, sharding, Hypothesis driver, known findings, evidence, replay files.

Exit codes: 0 held (possibly with KNOWN-FINDING lines), 1 VIOLATION, 2 harness error.
"""
import hashlib
import json
import multiprocessing
import os
import sys
import time
import traceback
from collections import Counter

VERIF = os.path.dirname(os.path.dirname(os.path.abspath(__file__)))
REPO = os.path.abspath(os.environ.get('VERIF_REPO', '/repo'))
NPROC = int(os.environ.get('VERIF_NPROC', '16'))


def use_repo():
    """Put the tree under test first on sys.path (beats the editable-install finder, which is appended)."""
    if sys.path[0] != REPO:
        sys.path.insert(0, REPO)
    sys.dont_write_bytecode = True
    import logging
    logging.getLogger('pyrsocket').disabled = True
    logging.getLogger('asyncio').disabled = True
    import rsocket
    origin = os.path.dirname(os.path.dirname(os.path.abspath(rsocket.__file__)))
    if origin != REPO:
        raise HarnessError('rsocket imported from %s, expected %s' % (origin, REPO))


class CaseTimeout(KeyboardInterrupt):
    """A single case did not finish: the wall-clock guard of run_program fired (programs take milliseconds), or a decoder
    produced an impossible number of frames from one chunk. Derived from KeyboardInterrupt: no `except Exception` in the
    code under test swallows it, and asyncio re-raises it out of the running loop instead of parking it in a task or in the
    loop's exception handler. C12 reports it as non-termination; elsewhere it surfaces as a harness error (exit 2)."""


class HarnessError(Exception):
    """Something is wrong with the harness or with an internal name it relies on (exit 2, never a VIOLATION)."""


def case_hash(obj) -> str:
    return hashlib.blake2b(json.dumps(obj, sort_keys=True, default=_json_default).encode(), digest_size=8).hexdigest()


def _json_default(o):
    if isinstance(o, (bytes, bytearray)):
        return {'hex': bytes(o).hex()}
    if isinstance(o, (set, frozenset)):
        return sorted(o)
    if isinstance(o, tuple):
        return list(o)
    return repr(o)


def jdump(obj, **kw):
    return json.dumps(obj, default=_json_default, **kw)


def shrink_for_sample(obj, limit=1500):
    s = jdump(obj)
    if len(s) <= limit:
        return json.loads(s)
    return {'truncated_json': s[:limit] + '...', 'full_length': len(s)}


def viol(kind, sig=None, **facts):
    """A violation record. `sig` is the narrow signature matched against KNOWN_FINDINGS.txt."""
    return {'kind': kind, 'sig': sig or kind, 'facts': facts}


def repo_exception_sig(exc):
    """(is_repo_frame, signature) for an exception: innermost frame inside the tree under test?"""
    tb = traceback.extract_tb(exc.__traceback__)
    inner_repo = None
    for fr in tb:
        fn = os.path.abspath(fr.filename)
        if fn.startswith(REPO + os.sep):
            inner_repo = fr
    last = tb[-1] if tb else None
    if last is not None and os.path.abspath(last.filename).startswith(REPO + os.sep):
        return True, 'exception:%s@%s:%s' % (type(exc).__name__, os.path.relpath(last.filename, REPO), last.name)
    if inner_repo is not None and last is not None and not os.path.abspath(last.filename).startswith(VERIF + os.sep):
        # raised in a library called by the repo code (struct, cbitstruct, ...)
        return True, 'exception:%s@%s:%s' % (type(exc).__name__, os.path.relpath(inner_repo.filename, REPO),
                                             inner_repo.name)
    return False, 'harness:%s' % type(exc).__name__


# --------------------------------------------------------------------------------------------- known findings

class Known:
    def __init__(self, pid):
        self.open = {}  # sig -> description
        path = os.path.join(VERIF, 'KNOWN_FINDINGS.txt')
        if os.path.exists(path):
            for line in open(path):
                line = line.strip()
                if not line.startswith('open:'):
                    continue
                parts = line.split(None, 3)
                if len(parts) < 3:
                    continue
                if parts[1] != 'property=%s' % pid or not parts[2].startswith('sig='):
                    continue
                self.open[parts[2][4:]] = parts[3] if len(parts) > 3 else ''

    def matches(self, v):
        return v['sig'] in self.open


# --------------------------------------------------------------------------------------------- shard results

class Stats:
    """Per-shard accumulator; merged by the parent."""

    def __init__(self):
        self.evaluations = 0
        self.nontrivial = set()
        self.classes = Counter()
        self.samples = []
        self.violations = []  # list of (violation, replay_case)
        self.known = Counter()  # sig -> count
        self.excluded = Counter()
        self.notes = []
        self.exhaustive = None
        self.extra = {}

    def case(self, case, nontrivial, classes=(), sample_limit=4, key=None):
        self.evaluations += 1
        for c in classes:
            self.classes[c] += 1
        if nontrivial:
            h = key if key is not None else case_hash(case)
            if h not in self.nontrivial and len(self.samples) < sample_limit:
                self.samples.append(shrink_for_sample(case))
            self.nontrivial.add(h)

    def merge(self, other):
        self.evaluations += other.evaluations
        self.nontrivial |= other.nontrivial
        self.classes.update(other.classes)
        for s in other.samples:
            if len(self.samples) < 6:
                self.samples.append(s)
        self.violations.extend(other.violations)
        self.known.update(other.known)
        self.excluded.update(other.excluded)
        self.notes.extend(other.notes)
        for k, v in other.extra.items():
            if isinstance(v, (int, float)) and isinstance(self.extra.get(k, 0), (int, float)):
                self.extra[k] = self.extra.get(k, 0) + v
            else:
                self.extra[k] = v
        if other.exhaustive is not None:
            self.exhaustive = other.exhaustive if self.exhaustive is None else (self.exhaustive and other.exhaustive)


def judge(stats, known, case, violations):
    """Split violations into known (counted) and new; returns the new ones."""
    new = []
    for v in violations:
        if known.matches(v):
            stats.known[v['sig']] += 1
        else:
            new.append(v)
    return new


def hyp_search(stats, known, strategy, prop, max_examples, seed, classify=None, shrink=True, rounds=3,
               shrink_budget_s=None):
    """Drive `prop(case) -> [violation]` with Hypothesis.

    prop must be a pure function of the case. Violations matching an open known finding are counted and the
    search continues; any other violation fails the example, Hypothesis shrinks it, and the minimal case is kept
    for the replay file. Up to `rounds` root causes (distinct signatures) are collected by re-running with the
    signatures already found excluded.
    """
    import hypothesis
    from hypothesis import given, settings, HealthCheck, Phase

    if shrink_budget_s is None:
        shrink_budget_s = float(os.environ.get('VERIF_SHRINK_S', '25'))
    found_sigs = set()
    phases = [Phase.explicit, Phase.generate, Phase.target]
    if shrink:
        phases.append(Phase.shrink)
    for rnd in range(rounds):
        state = {'last': None, 'count': 0}

        def body(case):
            shrinking = state.get('failing', False)
            if shrinking and time.time() > state['deadline']:
                return  # shrink budget used up: let the shrinker run dry, the best failing case so far is kept
            vs = prop(case)
            state['count'] += 1
            new = [v for v in vs if not known.matches(v) and v['sig'] not in found_sigs]
            if not shrinking:
                for v in vs:
                    if known.matches(v):
                        stats.known[v['sig']] += 1
                if classify is not None:
                    nt, classes, key = classify(case, vs)
                    stats.case(case, nt, classes, key=key)
                else:
                    stats.case(case, True)
            if new:
                if not shrinking:
                    state['failing'] = True
                    state['deadline'] = time.time() + shrink_budget_s
                size = len(jdump(case))
                if state['last'] is None or size <= state['last'][2] or new[0]['sig'] != state['last'][1][0]['sig']:
                    if state['last'] is None or new[0]['sig'] == state['last'][1][0]['sig'] or size <= state['last'][2]:
                        state['last'] = (case, new, size)
                raise AssertionError(new[0]['sig'])

        test = settings(max_examples=max_examples, database=None, deadline=None, derandomize=False,
                        report_multiple_bugs=False, phases=phases, print_blob=False,
                        suppress_health_check=list(HealthCheck))(
            hypothesis.seed(seed + 7919 * rnd)(given(strategy)(body)))
        try:
            test()
            break
        except AssertionError:
            pass
        except hypothesis.errors.HypothesisException as e:
            # Flaky / FailedHealthCheck etc: if a failing case was captured keep it, else it is a harness problem
            if state['last'] is None:
                raise HarnessError('hypothesis: %r' % (e,))
        case, new, _size = state['last']
        for v in new[:1]:
            stats.violations.append((v, case))
            found_sigs.add(v['sig'])
        max_examples = max(50, max_examples // 2)
    return stats


# --------------------------------------------------------------------------------------------- sharding

def _shard_entry(args):
    modname, fn, kwargs = args
    try:
        import importlib
        mod = importlib.import_module(modname)
        st = getattr(mod, fn)(**kwargs)
        return ('ok', st)
    except HarnessError as e:
        return ('harness', traceback.format_exc())
    except BaseException as e:
        return ('harness', traceback.format_exc())


def _run_pool(jl, nproc):
    """Worker processes for the shards. A worker that dies (killed by the kernel, a crash in a C extension) breaks the
    executor instead of leaving the parent waiting for ever: that is reported as a harness error."""
    if len(jl) == 1 or nproc == 1:
        return [_shard_entry(j) for j in jl]
    import concurrent.futures as cf
    ctx = multiprocessing.get_context('fork')
    try:
        with cf.ProcessPoolExecutor(max_workers=min(nproc, len(jl)), mp_context=ctx) as ex:
            return list(ex.map(_shard_entry, jl, chunksize=1))
    except cf.process.BrokenProcessPool as e:
        raise HarnessError('a worker process died: %r' % (e,))


def run_shards(modname, fn, kwargs_list, nproc=None):
    """Run fn(**kwargs) for each kwargs in worker processes; merge Stats."""
    return run_shards_multi(modname, [(fn, kw) for kw in kwargs_list], nproc)


def run_shards_multi(modname, jobs, nproc=None):
    """jobs: list of (function name, kwargs)."""
    nproc = nproc or NPROC
    merged = Stats()
    results = _run_pool([(modname, fn, kw) for fn, kw in jobs], nproc)
    for status, payload in results:
        if status != 'ok':
            raise HarnessError('shard failed:\n' + payload)
        merged.merge(payload)
    return merged


def shard_seeds(seed, n):
    return [(seed * 1000003 + 7 + i * 104729) % (2 ** 31) for i in range(n)]


# --------------------------------------------------------------------------------------------- finishing a run

def finish(pid, tier, seed, level, rule, stats, t0, assumptions=(), known=None, extra_coverage=None):
    """Write replay files + evidence, print KNOWN-FINDING / VIOLATION lines, return exit code."""
    known = known or Known(pid)
    evdir = os.environ.get('VERIF_EVIDENCE_DIR') or os.path.join(VERIF, 'evidence')
    rpdir = os.environ.get('VERIF_REPLAY_DIR') or os.path.join(VERIF, 'replays')
    os.makedirs(evdir, exist_ok=True)
    os.makedirs(rpdir, exist_ok=True)
    for sig, n in sorted(stats.known.items()):
        print('KNOWN-FINDING: property=%s %s [sig=%s; %d case(s) this run]' % (pid, known.open.get(sig, ''), sig, n))
    seen = set()
    code = 0
    nviol = 0
    for v, case in stats.violations:
        if v['sig'] in seen:
            continue
        seen.add(v['sig'])
        nviol += 1
        name = '%s-%s-%d-%s.json' % (pid, tier, seed, hashlib.blake2b(v['sig'].encode(), digest_size=4).hexdigest())
        path = os.path.join(rpdir, name)
        with open(path, 'w') as f:
            f.write(jdump({'property': pid, 'violation': v, 'case': case}, indent=1))
        print('VIOLATION property=%s replay=%s' % (pid, path))
        print('  kind=%s sig=%s facts=%s' % (v['kind'], v['sig'], jdump(v['facts'])[:600]))
        code = 1
    coverage = {
        'evaluations': int(stats.evaluations),
        'distinct_nontrivial': len(stats.nontrivial),
        'rule': rule,
        'samples': stats.samples[:6] if stats.samples else [],
        'classes': dict(sorted(stats.classes.items())),
        'known_finding_cases': dict(stats.known),
        'excluded_by_known_finding': dict(stats.excluded),
    }
    if stats.exhaustive is not None:
        coverage['exhaustive'] = bool(stats.exhaustive)
    coverage.update(stats.extra)
    if extra_coverage:
        coverage.update(extra_coverage)
    if stats.notes:
        coverage['notes'] = sorted(set(stats.notes))[:20]
    ev = {
        'property_id': pid, 'tier': tier, 'seed': int(seed), 'level': level, 'coverage': coverage,
        'assumptions': list(assumptions), 'wall_s': round(time.time() - t0, 2), 'violations': nviol,
    }
    with open(os.path.join(evdir, '%s.json' % pid), 'w') as f:
        f.write(jdump(ev, indent=1))
    print('%s %s seed=%d: evaluations=%d distinct_nontrivial=%d violations=%d known=%d wall=%.1fs' % (
        pid, tier, seed, stats.evaluations, len(stats.nontrivial), nviol, sum(stats.known.values()),
        time.time() - t0))
    return code


# --------------------------------------------------------------------------------------------- bytes in JSON cases

def to_jsonable(o):
    if isinstance(o, (bytes, bytearray)):
        return {'hex': bytes(o).hex()}
    if isinstance(o, dict):
        return {k: to_jsonable(v) for k, v in o.items()}
    if isinstance(o, (list, tuple)):
        return [to_jsonable(v) for v in o]
    return o


def from_jsonable(o):
    if isinstance(o, dict):
        if set(o.keys()) == {'hex'}:
            return bytes.fromhex(o['hex'])
        return {k: from_jsonable(v) for k, v in o.items()}
    if isinstance(o, list):
        return [from_jsonable(v) for v in o]
    return o


def load_replay(path):
    obj = json.load(open(path))
    case = obj['case'] if isinstance(obj, dict) and 'case' in obj else obj
    return from_jsonable(case)


def report_replay(pid, path, vs, known=None):
    known = known or Known(pid)
    bad = [v for v in vs if not known.matches(v)]
    for v in vs:
        if v in bad:
            print('VIOLATION property=%s replay=%s' % (pid, path))
            print('  kind=%s sig=%s facts=%s' % (v['kind'], v['sig'], jdump(v['facts'])[:600]))
        else:
            print('KNOWN-FINDING: property=%s %s [sig=%s]' % (pid, known.open.get(v['sig'], ''), v['sig']))
    if not vs:
        print('%s replay %s: no violation' % (pid, path))
    return 1 if bad else 0


def drive(coro):
    """Run a coroutine that never really suspends (fake writers) to completion without an event loop."""
    try:
        coro.send(None)
    except StopIteration as e:
        return e.value
    coro.close()
    raise HarnessError('coroutine suspended unexpectedly')
