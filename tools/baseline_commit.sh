#!/bin/sh
# tools/baseline_commit.sh <commit> : pinned suite on a scratch worktree of /repo at <commit> (removed afterwards)
C=${1:-HEAD}
SHA=$(git -C /repo rev-parse --short "$C") || exit 2
WT=/tmp/wt-base-$SHA
git -C /repo worktree remove --force "$WT" 2>/dev/null
git -C /repo worktree add --detach "$WT" "$SHA" >/dev/null 2>&1 || exit 2
BASELINE_OUT=/tmp/baseline-$SHA "$(dirname "$0")/baseline.sh" "$WT" "$SHA"
RC=$?
git -C /repo worktree remove --force "$WT"
echo "commit $SHA rc=$RC"
exit $RC
