#!/bin/sh
# tools/mutant.sh <patch> <property-id> [tier]: apply a patch to a scratch worktree of /repo, run the check against
# it (VERIF_REPO), report whether it was detected (exit 1 from the check), and remove the scratch tree.
PATCH=$(readlink -f "$1"); PID=$2; TIER=${3:-quick}
WT=$(mktemp -d /tmp/mut-XXXXXX)
rmdir "$WT"
git -C /repo worktree add --detach "$WT" HEAD >/dev/null 2>&1 || { echo "worktree failed"; exit 2; }
if ! git -C "$WT" apply "$PATCH"; then
  echo "ERROR(apply) $PID $(basename "$1"): patch does not apply to /repo HEAD"; git -C /repo worktree remove --force "$WT"; exit 2
fi
OUT=$(mktemp -d /tmp/mutout-XXXXXX)
cd "$(dirname "$0")/.."
VERIF_REPO="$WT" VERIF_EVIDENCE_DIR="$OUT" VERIF_REPLAY_DIR="$OUT" ./check "$PID" --tier "$TIER" > "$OUT/log" 2>&1
RC=$?
if [ $RC -eq 1 ]; then echo "DETECTED $PID $(basename "$1"): $(grep -m1 -A1 '^VIOLATION' "$OUT/log" | tail -1 | cut -c1-160)";
elif [ $RC -eq 0 ]; then echo "MISSED   $PID $(basename "$1")";
else echo "ERROR($RC) $PID $(basename "$1"): $(tail -3 "$OUT/log" | tr '\n' ' ' | cut -c1-300)"; fi
git -C /repo worktree remove --force "$WT"
rm -rf "$OUT"
exit $RC
