#!/venv/bin/python
"""Minimise the op list of a replay file by deletion, keeping the same violation signature.
usage: tools/ddmin.py <PID> <replay.json> [sig-substring]"""
import importlib, json, sys, os
sys.path.insert(0, os.path.dirname(os.path.dirname(os.path.abspath(__file__))))
os.environ.setdefault('PYTHONHASHSEED', '0')
from harness import common
pid, path = sys.argv[1], sys.argv[2]
want = sys.argv[3] if len(sys.argv) > 3 else None
common.use_repo()
mod = importlib.import_module('harness.checks.' + pid.lower())
case = common.load_replay(path)

def bad(c):
    try:
        vs = mod.prop(c)
    except Exception as e:
        return False
    return any((want or '') in v['sig'] for v in vs)

assert bad(case), 'does not reproduce'
ops = case['ops']
n = 2
while len(ops) >= 2:
    chunk = max(1, len(ops) // n)
    reduced = False
    for i in range(0, len(ops), chunk):
        cand = ops[:i] + ops[i + chunk:]
        if bad(dict(case, ops=cand)):
            ops = cand
            n = max(n - 1, 2)
            reduced = True
            break
    if not reduced:
        if chunk == 1:
            break
        n = min(n * 2, len(ops))
case = dict(case, ops=ops)
print(json.dumps(case))
vs = mod.prop(case)
print([v['sig'] for v in vs], file=sys.stderr)
