#!/venv/bin/python
"""tools/mkseedround.py <round-number> <letters-of-earlier-rounds>: create scratch worktrees /tmp/seed<N>-CXX with
_seed/PROPERTY.txt (the property text only) and _seed/TASK.md for the sub-agents that write seeded breaking changes."""
import json, os, subprocess, sys
N = sys.argv[1]
earlier = sys.argv[2]
props = {}
for l in open('/verif/properties.jsonl'):
    p = json.loads(l); props[p['id']] = p
hints = {
 'C01': 'tests/rsocket/test_request_response.py tests/rsocket/test_request_stream.py tests/rsocket/test_request_channel.py tests/rsocket/test_fragments.py',
 'C02': 'tests/rsocket/test_frame.py tests/rsocket/test_frame_decode.py',
 'C03': 'tests/rsocket/test_fragments.py',
 'C04': 'tests/rsocket/test_fragments.py tests/rsocket/test_frame_decode.py tests/rsocket/test_rsocket.py',
 'C05': 'tests/rsocket/test_fragments.py tests/rsocket/test_request_stream.py tests/rsocket/test_multiple_streams.py',
 'C06': 'tests/rsocket/test_request_stream.py tests/rsocket/test_stream_helpers.py',
 'C07': 'tests/rsocket/test_request_channel.py tests/rsocket/test_request_stream.py tests/rsocket/test_request_response.py',
 'C08': 'tests/rsocket/test_request_response.py tests/rsocket/test_request_channel.py tests/rsocket/test_lease.py',
 'C09': 'tests/rsocket/test_request_stream.py tests/rsocket/test_request_channel.py tests/rsocket/test_request_response.py',
 'C10': 'tests/rsocket/test_request_channel.py tests/rsocket/test_multiple_streams.py tests/rsocket/test_internal.py',
 'C11': 'tests/rsocket/test_connection_lost.py tests/rsocket/test_rsocket.py',
 'C12': 'tests/rsocket/test_misbehaving_client.py tests/rsocket/test_unimplemented_handler.py tests/rsocket/test_frame_decode.py',
 'C13': 'tests/rsocket/test_stream_control.py tests/rsocket/test_misbehaving_client.py',
 'C14': 'tests/rsocket/test_lease.py',
 'C15': 'tests/rsocket/test_rsocket.py',
 'C16': 'tests/rsocket/test_setup.py tests/rsocket/test_resume_unsupported.py',
 'C17': 'tests/rsocket/test_connection_lost.py tests/rsocket/test_load_balancer.py',
 'C18': 'tests/rsocket/test_composite_metadata.py tests/rsocket/test_extentions.py tests/rsocket/test_mimetype.py tests/rsocket/test_authentication.py',
 'C19': 'tests/rsocket/test_routing.py tests/rsocket/test_request_router.py tests/rsocket/test_routing_unknown_route.py',
 'C20': 'tests/rx_support tests/test_reactivex',
}
extra = {
 'C03': "(Known pre-existing limitation, do not re-use it: when metadata is present, a fragment can exceed the configured size by up to 3 bytes. Your change must break something else.)",
 'C04': "(Known pre-existing leniency, do not re-use it: a metadata length that points past the end of the frame is decoded with the metadata clamped to what is there.)",
 'C08': "(Known pre-existing limitations, do not re-use them: with honor_lease, REQUEST_N/CANCEL/PAYLOAD can be sent before a lease-blocked request frame; on channels a requester CANCEL or an ERROR only closes one direction, so frames can follow an endpoint's own CANCEL/ERROR on a channel. Your change must break something else.)",
 'C10': "(Known pre-existing limitation, do not re-use it: a channel whose local publisher is still open when the peer's ERROR or CANCEL arrives stays registered until that publisher ends. Your change must break something else.)",
 'C16': "(Known pre-existing limitation, do not re-use it: if the transport's connect() coroutine suspends, frames issued meanwhile can be sent before SETUP. Your change must break something else.)",
}
T = '''You are given a scratch git worktree of the open-source project rsocket-py (a pure-Python asyncio implementation of the RSocket protocol) at /tmp/seed{N}-{P} . Work ONLY inside that directory. Do NOT read, list or use anything under /verif or /repo (they are out of bounds for this task); everything you need is in /tmp/seed{N}-{P}.

Python: use /venv/bin/python (it has all dependencies). Run tests like: `cd /tmp/seed{N}-{P} && PYTHONPATH=/tmp/seed{N}-{P} /venv/bin/python -m pytest -q -p no:cacheprovider --timeout=300 -k 'not quart' {H}` (always set PYTHONPATH to the worktree so that the worktree's code is imported, and deselect the flaky 'quart' parametrisations with -k 'not quart'; run pytest on the `tests` directory, not on the repository root - examples/ and performance/ need fixed ports and fail regardless). If you need to stop a test run, kill it by its explicit PID only - never with pkill / killall patterns: other people run the same commands in sibling worktrees.

The file /tmp/seed{N}-{P}/_seed/PROPERTY.txt contains one semantic property of the library (statement, what it quantifies over, why the existing tests cannot settle it, and the source files it is anchored in). Read it first. {X}

YOUR TASK: devise ONE small, realistic source change under /tmp/seed{N}-{P}/rsocket/ that BREAKS that property while the package still imports and the existing test suite still passes. The change must need something specific to manifest - a particular interleaving or schedule, a fault at a particular point, a multi-step sequence of operations, an unusual input or size, or two cooperating code sites that each look fine alone - and must NOT be something ordinary use (or the existing tests) would expose at once. Think of the kind of bug a plausible refactor, optimisation or "cleanup" could introduce. Do not edit any test. Keep the diff small (typically 1-15 changed lines).

{K} changes have already been collected for this property; yours must be DIFFERENT in kind from all of them: a different clause of the property, a different code site (a file or function none of them touched, if the anchors allow), or a different triggering condition. Read the whole statement and the quantifier again, clause by clause, and write down for yourself which clauses and which corners of the input / schedule / fault space the earlier changes cover; then aim at one they leave alone. Rare configurations (message framing vs byte framing, either endpoint as requester, the server side rather than the client side, lease on, fragmentation on, Rx v3 vs ReactiveX v4, odd sizes, empty values, maximum values, several connections in one process, slow links, applications that behave unusually but legally) and rare orders of events are fair game. The earlier ones were:
{LIST}

Then write a demonstration: a standalone Python program or pytest test that FAILS (non-zero exit / failing assertion) with your change applied and PASSES on the unchanged code. It may use real loopback TCP (see tests/tools/fixtures_tcp.py and tests/rsocket/helpers.py for how the tests build a client/server pair), in-memory fake transports, or call library classes directly. It must be deterministic enough to fail reliably with the change.

Verify BOTH directions yourself with `git diff -- rsocket > _seed/patch.diff` followed by `git apply -R _seed/patch.diff` / `git apply _seed/patch.diff`. Do NOT use `git stash` (the stash is shared between worktrees and other people are using it). Run at least the test files related to the code you touched, and preferably the whole `tests` directory once: `cd /tmp/seed{N}-{P} && PYTHONPATH=/tmp/seed{N}-{P} /venv/bin/python -m pytest -q -p no:cacheprovider --timeout=600 -k 'not quart' -q tests` (takes about 4 minutes; a few wall-clock sensitive tests - test_concurrent_streams, test_concurrent_fragmented_responses, test_cli_command websocket, aiohttp teardown errors - fail on a loaded machine with or without any change: re-run a failing test alone before concluding your change caused it); they must pass with your change.

DELIVERABLES, all inside /tmp/seed{N}-{P}/_seed/ :
 1. patch.diff  - output of `git diff -- rsocket` for your change (the change itself must also remain applied in the worktree when you finish).
 2. demo.py (or test_demo.py) - the demonstration, runnable as `cd /tmp/seed{N}-{P} && PYTHONPATH=/tmp/seed{N}-{P} /venv/bin/python _seed/demo.py` (or via pytest); exit code 0 = property held, non-zero = broken.
 3. NOTES.md - which part of the property it breaks, exactly what is needed for it to manifest (interleaving / input / sequence), why the existing tests do not catch it, which tests you ran with the change and their result, and the observed output of the demo with and without the change.

Final answer: a short summary (the diff, what it needs to manifest, test results, demo results both ways).
'''
words = {1: 'One', 2: 'Two', 3: 'Three', 4: 'Four', 5: 'Five', 6: 'Six', 7: 'Seven', 8: 'Eight', 9: 'Nine'}
only = sys.argv[3].split(',') if len(sys.argv) > 3 else None
for pid, p in props.items():
    if only and pid not in only:
        continue
    wt = '/tmp/seed%s-%s' % (N, pid)
    subprocess.run(['git', '-C', '/repo', 'worktree', 'add', '--detach', wt, 'HEAD'], check=True, capture_output=True)
    os.makedirs(wt + '/_seed', exist_ok=True)
    import glob
    ms = [json.load(open(f)) for r in earlier for f in sorted(glob.glob('/verif/seeded/%s-%s*/meta.json' % (pid, r)))]
    q = p['quantifier']
    txt = 'PROPERTY %s: %s\n\nStatement:\n%s\n\nQuantifies over (%s):\n%s\n\nWhy the existing tests cannot settle it:\n%s\n\nAnchored in:\n' % (
        pid, p['title'], p['statement'], ', '.join(q['over']), q['text'], p['why_tests_cant'])
    an = p['anchors']
    txt += '  files: ' + ', '.join(an['files']) + '\n'
    for s in an.get('state', []):
        txt += '  state: %s - %s (%s)\n' % (s['name'], s['meaning'], s['where'])
    for m in an.get('mechanism', []):
        txt += '  mechanism: %s (%s)\n' % (m['name'], m['where'])
    for o in an.get('observe_at', []):
        txt += '  observe at: %s\n' % o
    open(wt + '/_seed/PROPERTY.txt', 'w').write(txt)
    lst = '\n'.join('  %d. %s [needs: %s]' % (i + 1, m['change'], m['needs_to_manifest']) for i, m in enumerate(ms))
    open(wt + '/_seed/TASK.md', 'w').write(T.format(N=N, P=pid, H=hints[pid], X=extra.get(pid, ''), K=words.get(len(ms), str(len(ms))), LIST=lst))
print('ok')
