#!/usr/bin/env python3
"""Regenerate seeded/INDEX.md from seeded/*/meta.json."""
import json, os, glob
V = os.path.join(os.path.dirname(os.path.dirname(os.path.abspath(__file__))), 'seeded')
rows = []
for d in sorted(glob.glob(os.path.join(V, '*', 'meta.json'))):
    m = json.load(open(d))
    name = os.path.basename(os.path.dirname(d))
    det = m.get('detected_by') or []
    rows.append('| %s | %s | %s | %s | %s | %s |' % (name, m['property'], m['change'], m['needs_to_manifest'],
                                                       ', '.join(det) if det else ('superseded (see notes)' if m.get('superseded') else 'MISSED'),
                                                       m.get('first_run', 'detected')))
head = ['# Seeded breaking changes (written by sub-agents that saw only the property text and a scratch worktree)\n',
        'Each directory holds patch.diff (applies to the /repo HEAD it was written against), the agent\'s demonstration, its NOTES.md,',
        'result.json (demonstration exit codes without / with the patch, and our check\'s exit code) and meta.json.',
        'Every patch was confirmed in a scratch worktree with tools/seedcheck.sh: the demonstration exits 0 without and non-zero with the patch.',
        'The agents ran the related test files and the whole tests/ directory with -k "not quart"; the only failures they saw also occur on',
        'the unchanged tree (wall-clock / port flakes). "first run" says whether our quick check caught the change as it stood when the',
        'change arrived; "detected by" is the state now.\n',
        '| id | property | change | needs, to manifest | detected by | first run |', '|---|---|---|---|---|---|']
notes = open(os.path.join(V, 'STRENGTHENED.md')).read() if os.path.exists(os.path.join(V, 'STRENGTHENED.md')) else ''
open(os.path.join(V, 'INDEX.md'), 'w').write('\n'.join(head + rows) + '\n\n' + notes)
print(len(rows), 'entries')
