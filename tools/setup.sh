#!/bin/sh
# Offline setup: make sure hypothesis is importable by /venv/bin/python and atheris is under /verif/.deps.
cd "$(dirname "$0")/.." || exit 1
export PIP_NO_INDEX=1
/venv/bin/python -c 'import hypothesis' 2>/dev/null || \
  /venv/bin/pip install --no-index --find-links /opt/veriftools/wheels hypothesis || exit 1
if ! PYTHONPATH=.deps /venv/bin/python -c 'import atheris' 2>/dev/null; then
  /venv/bin/pip install --no-index --find-links /opt/veriftools/wheels --target .deps atheris >/dev/null 2>&1 || \
    echo "atheris not installable: fuzz targets will fall back to Hypothesis byte strategies"
fi
/venv/bin/python -c 'import hypothesis; print("hypothesis", hypothesis.__version__)'
exit 0
