#!/bin/sh
# tools/seedmatrix.sh [seed names...]: run every quick check against every seeded patch; writes seeded/MATRIX.md
cd "$(dirname "$0")/.." || exit 2
V=$(pwd)
NAMES=${*:-$(ls seeded | grep -v '\.md$')}
CHECKS="C01 C02 C03 C04 C05 C06 C07 C08 C09 C10 C11 C12 C13 C14 C15 C16 C17 C18 C19 C20"
TMP=$(mktemp)
for n in $NAMES; do
  WT=$(mktemp -d /tmp/seedmx-XXXXXX); rmdir "$WT"
  git -C /repo worktree add --detach "$WT" HEAD >/dev/null 2>&1 || continue
  if ! git -C "$WT" apply "$V/seeded/$n/patch.diff" 2>/dev/null; then echo "$n: patch does not apply" >> "$TMP"; git -C /repo worktree remove --force "$WT"; continue; fi
  ROW="$n:"
  for c in $CHECKS; do
    OUT=$(mktemp -d /tmp/seedmxo-XXXXXX)
    VERIF_REPO="$WT" VERIF_EVIDENCE_DIR="$OUT" VERIF_REPLAY_DIR="$OUT" VERIF_SHRINK_S=3 ./check $c --tier quick > "$OUT/log" 2>&1
    rc=$?
    [ $rc -eq 1 ] && ROW="$ROW $c"
    [ $rc -ge 2 ] && ROW="$ROW $c(err)"
    rm -rf "$OUT"
  done
  echo "$ROW" >> "$TMP"
  git -C /repo worktree remove --force "$WT"
done
{ echo "# Which quick checks report a violation on which seeded change"; echo; echo '```'; cat "$TMP"; echo '```'; } > seeded/MATRIX.md
rm -f "$TMP"
