#!/bin/sh
# tools/baseline.sh <tree> <tag>: run the pinned test suite in <tree> (a checkout of rsocket-py) and compare with
# the stable_pass list of /root/.vp/BASELINE.json. Prints the stable tests that did not pass. Guard is OFF.
TREE=${1:-/repo}
TAG=${2:-run}
OUT=${BASELINE_OUT:-/tmp/baseline-$TAG}
mkdir -p "$OUT"
unset RSOCKET_PY_VERIF
cd "$TREE" || exit 2
export PYTHONPATH="$TREE"
/venv/bin/python -m pytest -ra -q -p no:cacheprovider --timeout=900 \
  --continue-on-collection-errors --junitxml="$OUT/junit.xml" > "$OUT/log.txt" 2>&1
/venv/bin/python - "$OUT/junit.xml" <<'PY'
import json, sys, xml.etree.ElementTree as ET
stable = set(json.load(open('/root/.vp/BASELINE.json'))['stable_pass'])
passed, failed = set(), set()
for tc in ET.parse(sys.argv[1]).getroot().iter('testcase'):
    tid = (tc.get('classname') or '') + '::' + (tc.get('name') or '')
    if tc.find('failure') is not None or tc.find('error') is not None:
        failed.add(tid)
    elif tc.find('skipped') is None:
        passed.add(tid)
passed -= failed
missing = sorted(stable - passed)
print('stable=%d passed=%d failed=%d stable_not_passed=%d' % (len(stable), len(passed), len(failed), len(missing)))
import subprocess, os
still = []
for m in missing:
    mod, name = m.split('::', 1)
    node = mod.replace('.', '/') + '.py::' + name
    ok = False
    for attempt in range(3):
        r = subprocess.run(['/venv/bin/python', '-m', 'pytest', '-q', '-p', 'no:cacheprovider', '--timeout=900', node],
                           stdout=subprocess.PIPE, stderr=subprocess.STDOUT, env=dict(os.environ))
        if r.returncode == 0:
            ok = True
            break
    print('  NOT-PASSED-IN-FULL-RUN', m, '-> alone:', 'passed' if ok else 'FAILED')
    if not ok:
        still.append(m)
print('confirmed_failures=%d' % len(still))
sys.exit(1 if still else 0)
PY
