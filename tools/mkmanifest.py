#!/usr/bin/env python3
"""Regenerates MANIFEST.json from the table below (kept in one place so it is always schema-valid)."""
import json, os, subprocess

HERE = os.path.dirname(os.path.dirname(os.path.abspath(__file__)))

CHECKS = {
    'C05': dict(engine='simnet', level='exploration', design='3/C05',
                technique='property-based testing: Hypothesis-generated SimNet programs, invariant over the send log with an independent reassembler',
                text='Generated multiplexing schedules (bursts, blocked drain, fragment sizes, both framings) against two real endpoints on a harness-owned network; per-stream wire sequence compared with the hand-over order of a recording application. Search, not proof: held on everything generated.',
                note='Trusted: the virtual loop, the tap (frames decoded from the written bytes with an independent reference codec), the recording application. Real TransportTCP and the messaging base class are exercised; websocket/QUIC glue is not.'),
}

CHECKS.update({
    'C02': dict(engine='codec', level='exploration', design='3/C02',
                technique='property-based testing: differential against an independent reference codec, round-trip and canonical-bytes relations, exhaustive header tables, coverage-guided fuzzing (atheris) of the decode->encode fixed point',
                text='Generated frame values of all 14 types on both codec backends, compared with a reference codec written from the specification; exhaustive 64x1024x5 header table; thorough tier adds libFuzzer runs. Search over values, no proof.',
                note='Trusted: harness/refcodec.py (independent of the repository), Hypothesis generators. cbitstruct variant needs cbitstruct installed (reported in evidence key backends).'),
    'C03': dict(engine='codec', level='exploration', design='3/C03',
                technique='exhaustive enumeration of (data length, metadata length) windows plus Hypothesis cases, validity predicate over reference-decoded fragments',
                text='Every (dlen, mlen) pair in a window covering 0..2+ fragments for several fragment sizes, both framings and all fragmentable types is fragmented, measured on the wire, and reassembled; larger sizes by Hypothesis. Exhaustive inside the windows only.',
                note='Trusted: reference codec for measuring/decoding fragments. One open known finding (metadata length field not budgeted).'),
    'C04': dict(engine='codec', level='exploration', design='3/C04',
                technique='metamorphic property-based testing (chunking partitions) with a reference expectation; coverage-guided fuzzing in the thorough tier',
                text='Generated frame sequences with malformed bodies decoded under several partitions of the byte stream, through FrameParser and through the real TransportTCP reader path, and per message in message mode.',
                note='Trusted: reference codec for canonical bytes; asyncio.StreamReader from the standard library.'),
    'C13': dict(engine='codec', level='exploration', design='3/C13',
                technique='model-based property testing (operation lists against a reference allocator) plus exhaustive enumeration of short histories',
                text='Histories of allocate/register/finish on StreamControl for both parities on reduced id spaces (as the suite does) and at the 31-bit wrap, all histories to a depth bound and Hypothesis-generated longer ones; incoming id reuse against a real endpoint.',
                note='Trusted: the reference allocator (sorted free sets). Lowers StreamControl._maximum_stream_id like tests/rsocket/test_stream_control.py.'),
    'C18': dict(engine='codec', level='exploration', design='3/C18',
                technique='property-based testing: differential against a reference composite-metadata encoder, round trip, exhaustive id/name tables; fuzzing of parse->serialize stability in the thorough tier',
                text='Generated lists of composite entries of every kind within the format limits, out-of-range names and tags, exhaustive registry tables against the specification list.',
                note='Trusted: specification tables embedded in harness/refcodec.py.'),
})

CHECKS.update({
    'C01': dict(engine='simnet', level='exploration', design='3/C01',
                technique='property-based testing: Hypothesis-generated concurrent interaction programs on a simulated network, reference model = the program (sequence equality of handed and observed payloads)',
                text='Generated mixes of 1-8 concurrent interactions of all five models, both directions, both framings, fragment sizes, read chunkings, publisher pacing and delivery schedules; each payload encodes its interaction and index so loss, duplication, corruption, merge and misdelivery are all visible. Search, not proof.',
                note='Trusted: virtual loop, tap, recording application, correlation of handler calls through the stream id of the last yielded frame. The websocket transports run with an in-memory stand-in for the websocket object (one shard); QUIC / HTTP3 glue is not exercised.'),
    'C08': dict(engine='simnet', level='exploration', design='3/C08',
                technique='property-based testing: protocol-role monitor (per-stream automaton) over the send/receive log of every run of three program generators incl. a race generator',
                text='A per-endpoint, per-stream legality automaton derived from the statement is applied to generated runs rich in cancel/response races, handler and publisher failures, lease and fragmentation. Open known findings: D11 (frames overtake a lease-blocked request) and D12 (channel half-close), both pinned by the suite or not small to repair.',
                note='Trusted: the monitor automaton (harness/monitors.py mon_protocol), well-behaved recording applications, peers are the library itself.'),
})

CHECKS.update({
    'C06': dict(engine='simnet', level='exploration', design='3/C06',
                technique='property-based testing: credit-accounting invariant over the producer endpoint\'s own send/receive log, generated credit sequences and delivery timings',
                text='All library stream sources (generator, async generator, Rx3/Rx4 plain and back-pressure observables) in the responder role and both channel directions, with stingy generated credit; sent <= credit at every send, sent == min(elements, credit) at quiescence, granted values equal wire values.',
                note='Trusted: tap and credit monitor; lease off.'),
    'C09': dict(engine='simnet', level='exploration', design='3/C09',
                technique='property-based testing: generated cancel moments (incl. request+cancel in one read, cancel racing completion) with recording publishers/futures/generators as oracle for producer cancellation',
                text='Cancels of request-response, stream and channel interactions at generated moments among bystanders; exactly one CANCEL, nothing delivered after cancel() returned, peer producer cancelled and silent, bystanders delivered in full.',
                note='Trusted: recording application; plain Rx observables are observable on the wire only.'),
    'C10': dict(engine='simnet', level='exploration', design='3/C10',
                technique='property-based testing: generated interaction sequences with every ending on a reduced (wrapping) stream id space; invariant over stream tables and reassembly caches at quiescence',
                text='1-12 interactions with all endings, ids wrapping and reused within a run; at quiescence no table entry or partial frame for any interaction that terminated at the API.',
                note='Reads StreamControl._streams and FrameFragmentCache._frames_by_stream_id like the suite\'s assert_no_open_streams; lowers _maximum_stream_id like the suite.'),
})

CHECKS.update({
    'C07': dict(engine='rawpeer', level='exploration', design='3/C07',
                technique='bounded-exhaustive enumeration of peer-frame / local-action / connection-event sequences against a real endpoint with a scripted raw peer, plus Hypothesis programs with faults; grammar oracle over recorded signals',
                text='All sequences up to a depth bound (spaced and "tight" schedules without a loop iteration between symbols) for every stream-carrying model, role and endpoint kind; recording subscribers and awaitables checked against the at-most-one-terminal grammar. Exhaustive only within the stated depth and alphabet.',
                note='Trusted: raw peer encodes with the reference codec; the legality pruning of the raw peer (never sends after its own terminal frame).'),
    'C11': dict(engine='simnet', level='fault_enumeration', design='3/C11',
                technique='fault enumeration: Hypothesis-generated healthy prefixes re-run with the link cut at every (thorough) or stratified (quick) byte offset in both directions and both failure modes, close() at every operation index, and a raising publisher cancel()',
                text='For each generated prefix the byte streams are learned from a healthy run, then every cut point is injected; after settle + 3 keepalive periods the pending awaitables, subscribers, publishers, on_close count, post-settle silence and task states are judged.',
                note='Trusted: virtual loop and link fault model (EOF vs ConnectionResetError on read, writes fail after the cut). Message-mode close() does not notify the peer (websocket glue out of scope).'),
})

CHECKS.update({
    'C12': dict(engine='rawpeer', level='fault_enumeration', design='3/C12',
                technique='fault enumeration + property-based testing: generated hostile byte strings / protocol-violating frame sequences from a raw peer with probe requests, complete application-fault matrix, coverage-guided fuzzing (atheris) in the thorough tier',
                text='Arbitrary bytes and messages, a catalogue of decodable protocol-violating frames interleaved with healthy interactions and followed by probes, and every application entry point failing (complete matrix x side x framing x fragmentation); liveness, no unhandled exception, only ERROR frames on offending streams, bystanders and probes served.',
                note='Trusted: raw peer/reference codec; 60 s watchdog (>= 10^4 x a normal case) is the only wall-clock element and only turns a synchronous endless loop into a reported violation.'),
    'C14': dict(engine='rawpeer', level='exploration', design='3/C14',
                technique='model-based property testing: generated lease/request/time timelines under a virtual clock replayed against a reference lease model; granter side compared with the published leases',
                text='Real lease-honouring client against a raw granter (all four request types, fragmentation, bounded and unbounded queue) and a real granting server against a raw client; wire order of request frames equals the reference model\'s release order, per-lease count and expiry respected.',
                note='Trusted: reference lease model; virtual datetime in rsocket.lease; events are separated by runs to quiescence.'),
    'C15': dict(engine='rawpeer', level='exploration', design='3/C15',
                technique='property-based testing under a virtual clock: generated keepalive periods/lifetimes and acknowledgement gap patterns; echo relation for KEEPALIVE frames',
                text='Echo of respond-flagged KEEPALIVEs with data on client and server; exact period of the client\'s keepalives in virtual time; no timeout while gaps <= 0.9 L, timeout reported within 2.2 L of silence.',
                note='Trusted: virtual loop time and virtual datetime in rsocket.rsocket_client; boundaries L and 2L themselves are never generated.'),
    'C16': dict(engine='rawpeer', level='exploration', design='3/C16',
                technique='property-based testing: generated client configurations, suspending transports/providers and concurrent requests with SETUP decoded from the written bytes by a reference codec; generated SETUP/RESUME frames against a real server',
                text='SETUP first and once on every (re)connection with exactly the configured fields; server accept/reject matrix with the right error codes on stream 0. Open known finding D13 (frames precede SETUP while transport.connect() is suspended).',
                note='Trusted: reference codec for decoding SETUP; virtual clock.'),
})

CHECKS.update({
    'C17': dict(engine='simnet', level='fault_enumeration', design='3/C17',
                technique='fault-sequence property testing: generated sequences of connection endings (EOF, transport error, keepalive timeout via a silent server, explicit reconnect) and reconnect triggers over successive simulated transports, with probes after each reconnect',
                text='1-4 consecutive reconnects with pending interactions and requests issued while reconnecting; per reconnect: old transport closed, pending failed, fresh SETUP first, ids restart at 1, keepalives at period P, probes served.',
                note='Trusted: transport provider / fresh real server per connection; a silent server is a link that drops what is written.'),
})

CHECKS.update({
    'C19': dict(engine='simnet', level='exploration', design='3/C19',
                technique='property-based testing with a reference dispatcher: Hypothesis-generated route tables, complete enumeration of request type x route state x authentication state x position per table',
                text='Real client and real server running RoutingRequestHandler over the simulated network; every routed request of the cross product is compared with a reference dispatcher (which recording coroutine ran, with which arguments, what the requester saw).',
                note='Trusted: reference dispatcher and the composite metadata built by the reference encoder.'),
    'C20': dict(engine='simnet', level='exploration', design='3/C20',
                technique='differential property-based testing: each generated scenario executed through the core API, Rx3 and ReactiveX4 adapters against a common reference sequence, plus wire monitors for request limits, credit and cancel',
                text='Element counts, request limits, error and dispose positions, plain and back-pressure observables in both channel directions, all models; observers, wire and recording delegate compared with the scenario.',
                note='Trusted: the scenario-derived expected sequences; Rx 3 and ReactiveX 4 from /venv.'),
})

NOT_YET = {}


def main():
    props = [json.loads(l) for l in open(os.path.join(HERE, 'properties.jsonl'))]
    ids = [p['id'] for p in props]
    checks = []
    for pid in ids:
        c = CHECKS.get(pid)
        if not c:
            continue
        checks.append({
            'property_id': pid,
            'quick_cmd': './check %s --tier quick' % pid,
            'thorough_cmd': './check %s --tier thorough' % pid,
            'evidence_file': 'evidence/%s.json' % pid,
            'replay_cmd_template': './check %s --replay {path}' % pid,
            'engine': c['engine'],
            'level_claimed': {'category': c['level'], 'text': c['text'], 'design_ref': c['design']},
            'level_note': c['note'],
            'technique': c['technique'],
        })
    na = [{'property_id': pid, 'reason': NOT_YET.get(pid, 'check not built yet in this framework revision (planned: DESIGN.md section 3/%s)' % pid)}
          for pid in ids if pid not in CHECKS]
    try:
        commits = subprocess.check_output(['git', '-C', '/repo', 'log', '--format=%H %s', 'decd9b8..HEAD'], text=True).split('\n')
    except Exception:
        commits = []
    m = {
        'version': 1,
        'setup_cmd': 'sh tools/setup.sh',
        'hooks': {
            'guard': 'RSOCKET_PY_VERIF',
            'enable': 'no source hooks are needed: every observation point is reachable from outside (transport boundary, application API, the tables the suite itself reads); ./check exports RSOCKET_PY_VERIF=1 for uniformity',
            'baseline_off_cmd': 'cd /repo && env -u RSOCKET_PY_VERIF /venv/bin/python -m pytest -ra -q -p no:cacheprovider --timeout=900 --continue-on-collection-errors',
            'source_commits': [],
            'add_only': True,
        },
        'engines': [
            {'name': 'codec', 'path': 'harness/refcodec.py', 'serves_properties': ['C02', 'C03', 'C04', 'C13', 'C18'],
             'kind_free_text': 'pure synchronous calls into the codec compared with an independent reference codec; Hypothesis + exhaustive enumeration'},
            {'name': 'simnet', 'path': 'harness/simnet.py', 'serves_properties': ['C01', 'C05', 'C06', 'C09', 'C10', 'C11', 'C17', 'C19', 'C20'],
             'kind_free_text': 'two real endpoints on a harness-owned network under a virtual-time asyncio loop; programs generated by Hypothesis; monitors over the event log'},
            {'name': 'rawpeer', 'path': 'harness/programs.py', 'serves_properties': ['C07', 'C08', 'C12', 'C14', 'C15', 'C16'],
             'kind_free_text': 'one real endpoint against a harness-scripted raw peer speaking reference-codec frames (class RawPeer and the raw* operations of the program interpreter)'},
            {'name': 'glue', 'path': 'harness/glue_e2e.py', 'serves_properties': ['C01', 'C04', 'C12'],
             'kind_free_text': "the repository's websocket transports (aiohttp, quart, websockets, asyncwebsockets, channels) driven with an in-memory stand-in for the websocket object (harness/glue.py, harness/glue_e2e.py)"},
        ],
        'checks': checks,
        'not_applicable': na,
        'notes': 'Technique family: property-based testing and fuzzing. See DESIGN.md. Fix commits in /repo are listed in KNOWN_FINDINGS.txt (fixed: lines).',
    }
    with open(os.path.join(HERE, 'MANIFEST.json'), 'w') as f:
        json.dump(m, f, indent=1)
        f.write('\n')


if __name__ == '__main__':
    main()
