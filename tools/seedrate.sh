#!/bin/sh
# tools/seedrate.sh <seed-name> <check-seeds...>: detection of one seeded change by its own property's quick check at several
# VERIF_SEED values (how robust the detection is, not just whether seed 1 happens to hit it)
cd "$(dirname "$0")/.." || exit 2
V=$(pwd); n=$1; shift
P=$(/venv/bin/python -c "import json;print(json.load(open('$V/seeded/$n/meta.json'))['property'])")
WT=$(mktemp -d /tmp/seedrt-XXXXXX); rmdir "$WT"
git -C /repo worktree add --detach "$WT" HEAD >/dev/null 2>&1 || exit 2
git -C "$WT" apply "$V/seeded/$n/patch.diff" || { git -C /repo worktree remove --force "$WT"; exit 2; }
OUT=$(mktemp -d /tmp/seedrto-XXXXXX); HIT=0; TOT=0
for sd in "$@"; do
  VERIF_SEED=$sd VERIF_REPO="$WT" VERIF_EVIDENCE_DIR="$OUT" VERIF_REPLAY_DIR="$OUT" VERIF_SHRINK_S=2 ./check $P --tier quick > "$OUT/log" 2>&1
  rc=$?; TOT=$((TOT+1)); [ $rc -eq 1 ] && HIT=$((HIT+1))
done
echo "$n $P: $HIT/$TOT"
rm -rf "$OUT"; git -C /repo worktree remove --force "$WT"
