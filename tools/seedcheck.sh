#!/bin/sh
# tools/seedcheck.sh <seed-worktree> <PID> [name]: validate a seeded change produced by a sub-agent and run our check on it.
#  1. patch applies to /repo HEAD (scratch worktree)   2. demo passes without / fails with the patch
#  3. our quick check detects it (exit 1)               -> copies patch/demo/notes to /verif/seeded/<name>/
SRC=$1; PID=$2; NAME=${3:-$PID-a}
V=$(cd "$(dirname "$0")/.." && pwd)
PATCH=$SRC/_seed/patch.diff
[ -f "$PATCH" ] || { echo "no patch.diff in $SRC/_seed"; exit 2; }
DEMO=$(ls $SRC/_seed/demo.py $SRC/_seed/test_demo.py 2>/dev/null | head -1)
[ -n "$DEMO" ] || { echo "no demo"; exit 2; }
WT=$(mktemp -d /tmp/seedchk-XXXXXX); rmdir "$WT"
git -C /repo worktree add --detach "$WT" HEAD >/dev/null 2>&1 || exit 2
mkdir -p "$WT/_seed"; cp "$SRC"/_seed/*.py "$WT/_seed/"
DB=$(basename "$DEMO")
rundemo() { if [ "$DB" = demo.py ]; then (cd "$WT" && PYTHONPATH="$WT" timeout 300 /venv/bin/python _seed/demo.py >/dev/null 2>&1); else (cd "$WT" && PYTHONPATH="$WT" timeout 300 /venv/bin/python -m pytest -q -p no:cacheprovider _seed/test_demo.py >/dev/null 2>&1); fi; echo $?; }
CLEAN=$(rundemo)
if ! git -C "$WT" apply "$PATCH"; then echo "SEED $NAME: patch does not apply to current HEAD"; git -C /repo worktree remove --force "$WT"; exit 2; fi
BROKEN=$(rundemo)
echo "SEED $NAME: demo exit without patch=$CLEAN with patch=$BROKEN"
OUT=$(mktemp -d /tmp/seedout-XXXXXX)
cd "$V"
VERIF_REPO="$WT" VERIF_EVIDENCE_DIR="$OUT" VERIF_REPLAY_DIR="$OUT" ./check "$PID" --tier quick > "$OUT/log" 2>&1
RC=$?
if [ $RC -eq 1 ]; then RES="DETECTED: $(grep -m1 -A1 '^VIOLATION' "$OUT/log" | tail -1 | cut -c1-200)"; elif [ $RC -eq 0 ]; then RES="MISSED by $PID quick"; else RES="CHECK-ERROR($RC): $(tail -2 "$OUT/log" | tr '\n' ' ' | cut -c1-200)"; fi
echo "SEED $NAME: $RES"
mkdir -p "$V/seeded/$NAME"
cp "$PATCH" "$V/seeded/$NAME/patch.diff"; cp "$SRC"/_seed/*.py "$V/seeded/$NAME/"; [ -f "$SRC/_seed/NOTES.md" ] && cp "$SRC/_seed/NOTES.md" "$V/seeded/$NAME/NOTES.md"
echo "{\"demo_clean\": $CLEAN, \"demo_with_patch\": $BROKEN, \"check\": \"$PID\", \"check_exit\": $RC}" > "$V/seeded/$NAME/result.json"
git -C /repo worktree remove --force "$WT"; rm -rf "$OUT"
