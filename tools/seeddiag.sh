#!/bin/sh
# tools/seeddiag.sh [seed names...]: run, for every seeded change, the quick check of the property it breaks (and of the
# other checks listed in its meta.json "detected_by") against /repo HEAD + the patch; prints one line per change and
# writes seeded/DIAGONAL.md. Exit 1 if a change is no longer detected by its own property's check.
cd "$(dirname "$0")/.." || exit 2
V=$(pwd)
NAMES=${*:-$(ls seeded | grep -v '\.md$')}
TMP=$(mktemp); BAD=0
for n in $NAMES; do
  P=$(/venv/bin/python -c "import json;m=json.load(open('$V/seeded/$n/meta.json'));print('SUPERSEDED' if m.get('superseded') else m['property'])")
  if [ "$P" = SUPERSEDED ]; then echo "$n: superseded (not a breaking change on the current tree, see meta.json)" | tee -a "$TMP"; continue; fi
  WT=$(mktemp -d /tmp/seeddg-XXXXXX); rmdir "$WT"
  git -C /repo worktree add --detach "$WT" HEAD >/dev/null 2>&1 || continue
  if ! git -C "$WT" apply "$V/seeded/$n/patch.diff" 2>/dev/null; then echo "$n $P: PATCH DOES NOT APPLY" | tee -a "$TMP"; BAD=1; git -C /repo worktree remove --force "$WT"; continue; fi
  OUT=$(mktemp -d /tmp/seeddgo-XXXXXX)
  VERIF_REPO="$WT" VERIF_EVIDENCE_DIR="$OUT" VERIF_REPLAY_DIR="$OUT" VERIF_SHRINK_S=3 ./check $P --tier quick > "$OUT/log" 2>&1
  rc=$?
  if [ $rc -eq 1 ]; then echo "$n $P: detected ($(grep -m1 -o 'sig=[^ ]*' "$OUT/log"))" | tee -a "$TMP";
  elif [ $rc -eq 0 ]; then echo "$n $P: MISSED" | tee -a "$TMP"; BAD=1;
  else echo "$n $P: CHECK ERROR rc=$rc" | tee -a "$TMP"; BAD=1; fi
  rm -rf "$OUT"
  git -C /repo worktree remove --force "$WT"
done
{ echo "# Every seeded change against the quick check of its own property (tools/seeddiag.sh)"; echo; echo '```'; cat "$TMP"; echo '```'; } > seeded/DIAGONAL${VERIF_SEED:+-seed$VERIF_SEED}.md
rm -f "$TMP"
exit $BAD
