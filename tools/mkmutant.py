#!/usr/bin/env python3
"""tools/mkmutant.py <name> <file> <old> <new>: create mutants/<name>.patch by replacing text in a scratch worktree."""
import subprocess, sys, tempfile, os, shutil
name, path, old, new = sys.argv[1:5]
wt = tempfile.mkdtemp(prefix='mkmut-', dir='/tmp')
os.rmdir(wt)
subprocess.check_call(['git', '-C', '/repo', 'worktree', 'add', '--detach', wt, 'HEAD'], stdout=subprocess.DEVNULL, stderr=subprocess.DEVNULL)
try:
    f = os.path.join(wt, path)
    s = open(f).read()
    old = old.encode().decode('unicode_escape')
    new = new.encode().decode('unicode_escape')
    assert s.count(old) >= 1, 'old text not found'
    open(f, 'w').write(s.replace(old, new, 1))
    diff = subprocess.check_output(['git', '-C', wt, 'diff'])
    out = os.path.join(os.path.dirname(os.path.dirname(os.path.abspath(__file__))), 'mutants', name + '.patch')
    open(out, 'wb').write(diff)
    print('wrote', out, len(diff), 'bytes')
finally:
    subprocess.call(['git', '-C', '/repo', 'worktree', 'remove', '--force', wt])
