#!/bin/sh
# tools/quiet_sweep.sh [seeds...]: every quick check at several VERIF_SEED values on the unchanged tree; any exit != 0 is listed
cd "$(dirname "$0")/.." || exit 2
SEEDS=${*:-"11 12 13 14 15 16 17 18 19 20"}
OUT=$(mktemp -d /tmp/quiet-XXXXXX)
FAIL=0
for s in $SEEDS; do
  for c in C01 C02 C03 C04 C05 C06 C07 C08 C09 C10 C11 C12 C13 C14 C15 C16 C17 C18 C19 C20; do
    VERIF_SEED=$s VERIF_EVIDENCE_DIR=$OUT VERIF_REPLAY_DIR=$OUT/replays ./check $c --tier quick > $OUT/$c-$s.log 2>&1
    rc=$?
    if [ $rc -ne 0 ]; then FAIL=$((FAIL+1)); echo "NOT-QUIET $c seed=$s rc=$rc: $(grep -m1 -A1 '^VIOLATION\|HARNESS' $OUT/$c-$s.log | tr '\n' ' ' | cut -c1-300)"; fi
  done
  echo "seed $s done"
done
echo "quiet sweep finished: $FAIL non-zero exits (logs in $OUT)"
